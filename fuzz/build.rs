use std::env;
fn main()
{
    let repo = env::var("VERIF_REPO_DIR").unwrap_or_else(|_| "/repo".to_string());
    println!("cargo:rustc-env=VERIF_REPO_DIR={}", repo);
    println!("cargo:rerun-if-env-changed=VERIF_REPO_DIR");
    println!("cargo:rerun-if-changed=build.rs");
    println!("cargo:rustc-check-cfg=cfg(ruler_verif)");
}
