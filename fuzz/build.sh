#!/bin/bash
# builds the three libFuzzer targets offline (nightly); prints the binary directory
DIR="$(cd "$(dirname "$0")" && pwd)"
cd "$DIR/.." || exit 2
[ -f "$DIR/Cargo.lock" ] || cp "${VERIF_REPO_DIR:-/repo}/Cargo.lock" "$DIR/Cargo.lock"
CARGO_NET_OFFLINE=true VERIF_REPO_DIR="${VERIF_REPO_DIR:-/repo}" cargo +nightly fuzz build --fuzz-dir fuzz -O >"$DIR/build.log" 2>&1 || { tail -30 "$DIR/build.log" >&2; exit 1; }
exit 0
