#![no_main]
#![allow(dead_code, unused_imports)]
// C15: the text form of a hash is a bijection; anything else is rejected.
include!(concat!(env!("VERIF_REPO_DIR"), "/src/main.rs"));

mod vlib;

use libfuzzer_sys::fuzz_target;

fuzz_target!(|data: &[u8]| {
    let s = String::from_utf8_lossy(data).to_string();
    let got = crate::ticket::Ticket::from_human_readable(&s);
    let want = vlib::b62::decode(&s);
    match (got, want)
    {
        (Ok(t), Ok(v)) =>
        {
            assert_eq!(bincode::serialize(&t).unwrap(), v.to_vec(), "decodes to the wrong value: {:?}", s);
            assert_eq!(t.human_readable(), s, "accepted but does not re-encode to itself: {:?}", s);
        }
        (Err(_), Err(_)) => {}
        (Ok(_), Err(e)) => panic!("C15: {:?} is not a valid encoding ({:?}) but was accepted", s, e),
        (Err(e), Ok(_)) => panic!("C15: {:?} is a valid encoding but was rejected: {:?}", s, e),
    }
    // and the other direction for the first 32 bytes
    if data.len() >= 32
    {
        let mut v = [0u8; 32];
        v.copy_from_slice(&data[..32]);
        let text = vlib::b62::encode(&v);
        let t = crate::ticket::Ticket::from_human_readable(&text).expect("C15: text form of a 256-bit value rejected");
        assert_eq!(t.human_readable(), text);
        assert_eq!(bincode::serialize(&t).unwrap(), v.to_vec());
    }
});
