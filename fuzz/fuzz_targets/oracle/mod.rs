#[path = "../../../harness/src/verif/oracle/refparse.rs"]
pub mod refparse;
#[path = "../../../harness/src/verif/oracle/parse_check.rs"]
pub mod parse_check;
