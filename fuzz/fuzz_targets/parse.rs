#![no_main]
#![allow(dead_code, unused_imports)]
// C14: the parser is total and agrees exactly with the reference parser (error kind, file, line, bundle indices).
include!(concat!(env!("VERIF_REPO_DIR"), "/src/main.rs"));

mod oracle;

use libfuzzer_sys::fuzz_target;

fuzz_target!(|data: &[u8]| {
    // the rules file must be UTF-8 (build() rejects anything else before parsing); a 0xff byte splits the input into files
    let parts: Vec<String> = data.split(|b| *b == 0xff).take(3).map(|p| String::from_utf8_lossy(p).to_string()).collect();
    if let Err(m) = oracle::parse_check::check_texts(&parts)
    {
        panic!("C14: {}", m);
    }
});
