#![no_main]
#![allow(dead_code, unused_imports)]
// C16: arbitrary bytes as a state file: an error or a well-formed value, never a panic.
include!(concat!(env!("VERIF_REPO_DIR"), "/src/main.rs"));

use libfuzzer_sys::fuzz_target;
use std::collections::BTreeMap;
use std::io::Cursor;
use std::sync::{Arc, Mutex};
use std::time::SystemTime;
use crate::system::{CommandLineOutput, CommandScript, SystemError};

/// Just enough of a file system for the two readers: flat map path -> bytes.
#[derive(Clone)]
struct MemSystem
{
    files: Arc<Mutex<BTreeMap<String, Vec<u8>>>>,
}

impl System for MemSystem
{
    type File = Cursor<Vec<u8>>;
    fn open(&self, path: &str) -> Result<Self::File, SystemError>
    {
        self.files.lock().unwrap().get(path).map(|d| Cursor::new(d.clone())).ok_or(SystemError::NotFound)
    }
    fn create_file(&mut self, path: &str) -> Result<Self::File, SystemError>
    {
        self.files.lock().unwrap().insert(path.to_string(), vec![]);
        Ok(Cursor::new(vec![]))
    }
    fn create_dir(&mut self, _path: &str) -> Result<(), SystemError> { Ok(()) }
    fn is_dir(&self, _path: &str) -> bool { false }
    fn is_file(&self, path: &str) -> bool { self.files.lock().unwrap().contains_key(path) }
    fn list_dir(&self, _path: &str) -> Result<Vec<String>, SystemError> { Ok(vec![]) }
    fn rename(&mut self, from: &str, to: &str) -> Result<(), SystemError>
    {
        let mut g = self.files.lock().unwrap();
        match g.remove(from) { Some(d) => { g.insert(to.to_string(), d); Ok(()) } None => Err(SystemError::NotFound) }
    }
    fn get_modified(&self, _path: &str) -> Result<SystemTime, SystemError> { Err(SystemError::MetadataNotFound) }
    fn is_executable(&self, _path: &str) -> Result<bool, SystemError> { Ok(false) }
    fn set_is_executable(&mut self, _path: &str, _executable: bool) -> Result<(), SystemError> { Ok(()) }
    fn execute_command(&mut self, _command_script: CommandScript) -> Vec<Result<CommandLineOutput, SystemError>> { vec![] }
}

fuzz_target!(|data: &[u8]| {
    let sys = MemSystem { files: Arc::new(Mutex::new(BTreeMap::new())) };
    let rule = crate::ticket::TicketFactory::from_str("some rule").result();
    sys.files.lock().unwrap().insert(format!("h/{}", rule.human_readable()), data.to_vec());
    sys.files.lock().unwrap().insert("table".to_string(), data.to_vec());
    let h = crate::history::History::new(sys.clone(), "h");
    if let Ok(rh) = h.read_rule_history(&rule)
    {
        // accepted: must be a well-formed value (serialises and reads back equal), and no strict prefix of its
        // own serialisation may be accepted
        let bytes = bincode::serialize(&rh).expect("accepted history does not serialise");
        let back: crate::history::RuleHistory = bincode::deserialize(&bytes).expect("accepted history does not read back");
        assert!(back == rh, "C16: accepted history is not stable under a round trip");
        for n in 0..bytes.len().min(256)
        {
            sys.files.lock().unwrap().insert(format!("h/{}", rule.human_readable()), bytes[..n].to_vec());
            assert!(h.read_rule_history(&rule).is_err(), "C16: strict prefix ({} of {}) accepted", n, bytes.len());
        }
    }
    let _ = crate::current::CurrentFileStates::from_file(sys.clone(), "table".to_string());
});
