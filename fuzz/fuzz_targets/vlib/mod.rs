#[path = "../../../harness/src/verif/sha256.rs"]
pub mod sha256;
#[path = "../../../harness/src/verif/b62.rs"]
pub mod b62;
