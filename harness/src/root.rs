#![no_main]
#![allow(dead_code, unused_imports)]
include!(concat!(env!("VERIF_REPO_DIR"), "/src/main.rs"));

#[path = "verif/mod.rs"]
pub mod verif;
