//! Independent base-62 text form of a 256-bit value, as the README/tests document it:
//! 43 characters, alphabet 0-9 a-z A-Z, least significant digit first, the 32 bytes
//! read as a little-endian integer.

pub const ALPHABET: &[u8; 62] = b"0123456789abcdefghijklmnopqrstuvwxyzABCDEFGHIJKLMNOPQRSTUVWXYZ";

/// 32 bytes little-endian -> 43 digits (little-endian digit order).
pub fn encode(bytes: &[u8; 32]) -> String
{
    // long division by 62 on a big-endian copy
    let mut n: Vec<u8> = bytes.iter().rev().cloned().collect(); // most significant first
    let mut out = Vec::with_capacity(43);
    for _ in 0..43
    {
        let mut rem: u32 = 0;
        for b in n.iter_mut()
        {
            let cur = (rem << 8) | (*b as u32);
            *b = (cur / 62) as u8;
            rem = cur % 62;
        }
        out.push(ALPHABET[rem as usize]);
    }
    debug_assert!(n.iter().all(|b| *b == 0));
    String::from_utf8(out).unwrap()
}

#[derive(Debug, PartialEq, Clone)]
pub enum DecodeErr
{
    Length,
    Character,
    Overflow,
}

fn digit(c: u8) -> Option<u32>
{
    match c
    {
        b'0'..=b'9' => Some((c - b'0') as u32),
        b'a'..=b'z' => Some((c - b'a') as u32 + 10),
        b'A'..=b'Z' => Some((c - b'A') as u32 + 36),
        _ => None,
    }
}

/// Reference decode.  When several defects apply (e.g. wrong length and a foreign
/// character) the caller should only compare "is an error", not which.
pub fn decode(s: &str) -> Result<[u8; 32], DecodeErr>
{
    let b = s.as_bytes();
    if b.len() != 43
    {
        return Err(DecodeErr::Length);
    }
    // Horner from the most significant digit (last char) in a 33-byte accumulator
    let mut acc = [0u8; 40]; // little-endian
    for &c in b.iter().rev()
    {
        let d = match digit(c)
        {
            Some(d) => d,
            None => return Err(DecodeErr::Character),
        };
        let mut carry = d;
        for a in acc.iter_mut()
        {
            let cur = (*a as u32) * 62 + carry;
            *a = (cur & 0xff) as u8;
            carry = cur >> 8;
        }
        debug_assert!(carry == 0);
    }
    if acc[32..].iter().any(|x| *x != 0)
    {
        return Err(DecodeErr::Overflow);
    }
    let mut out = [0u8; 32];
    out.copy_from_slice(&acc[..32]);
    Ok(out)
}

pub fn name_of(content: &[u8]) -> String
{
    encode(&super::sha256::sha256(content))
}
