//! The harness's own tiny command language.  This is "the user's commands": the only
//! thing the reference model and the system under test share.
//!
//! A script line is a chain of instructions joined by `&&` (stops at the first failing
//! instruction, like sh).  Different script lines run independently, like
//! `RealSystem::execute_command` runs every line.
//!
//!   emit <target> copy <src>            target := bytes of src
//!   emit <target> const <tag>           target := tag
//!   emit <target> mix <tag> <src>*      target := tag[h(src1),h(src2),..]  (h = first 6 hex of sha256)
//!   chmodx <target>                     set the executable bit
//!   fail <tag>                          exit 1
//!   failif <flagfile>                   exit 1 while the (undeclared) flag file exists
//!   failon <src> <content>              exit 1 when src holds exactly <content>
//!   nop <tag>                           exit 0, writes nothing

use super::sha256::{hex, sha256};

pub trait CmdFs
{
    fn read(&mut self, path: &str) -> Option<Vec<u8>>;
    fn write(&mut self, path: &str, data: &[u8]) -> bool;
    fn chmodx(&mut self, path: &str) -> bool;
    fn exists(&mut self, path: &str) -> bool;
    /// `cp -p`: give `to` the modification time of `from` (file systems without times: nothing to do)
    fn copy_mtime(&mut self, _from: &str, _to: &str) {}
}

#[derive(Clone, Debug, PartialEq, Eq, Hash, PartialOrd, Ord)]
pub enum Instr
{
    EmitCopy { t: String, src: String },
    /// on the real file system the target is a symbolic link to the source (absolute); elsewhere a copy
    EmitLink { t: String, src: String },
    /// like EmitCopy, but the target also gets the source's modification time (`cp -p`)
    EmitCopyP { t: String, src: String },
    EmitConst { t: String, tag: String },
    EmitMix { t: String, tag: String, srcs: Vec<String> },
    ChmodX { t: String },
    Fail { tag: String },
    FailIf { flag: String },
    FailOn { src: String, content: String },
    Nop { tag: String },
    /// like FailIf, but on the real file system the shell ends in the given way: 0 `exit 3`, 1 SIGKILL, 2 SIGTERM, 3 SIGHUP
    DieIf { flag: String, how: u8 },
    /// prints `err` bytes to stderr and `out` bytes to stdout (real file system only; nothing in the model)
    Noise { err: u32, out: u32 },
}

impl Instr
{
    pub fn render(&self) -> String
    {
        match self
        {
            Instr::EmitCopy { t, src } => format!("emit {} copy {}", t, src),
            Instr::EmitCopyP { t, src } => format!("emit {} copyp {}", t, src),
            Instr::EmitLink { t, src } => format!("emit {} link {}", t, src),
            Instr::EmitConst { t, tag } => format!("emit {} const {}", t, tag),
            Instr::EmitMix { t, tag, srcs } =>
            {
                let mut s = format!("emit {} mix {}", t, tag);
                for x in srcs
                {
                    s.push(' ');
                    s.push_str(x);
                }
                s
            }
            Instr::ChmodX { t } => format!("chmodx {}", t),
            Instr::Fail { tag } => format!("fail {}", tag),
            Instr::FailIf { flag } => format!("failif {}", flag),
            Instr::FailOn { src, content } => format!("failon {} {}", src, content),
            Instr::Nop { tag } => format!("nop {}", tag),
            Instr::DieIf { flag, how } => format!("dieif {} {}", flag, how),
            Instr::Noise { err, out } => format!("noise {} {}", err, out),
        }
    }

    pub fn target(&self) -> Option<&str>
    {
        match self
        {
            Instr::EmitCopy { t, .. } | Instr::EmitCopyP { t, .. } | Instr::EmitLink { t, .. } | Instr::EmitConst { t, .. } | Instr::EmitMix { t, .. } | Instr::ChmodX { t } => Some(t),
            _ => None,
        }
    }
}

pub fn parse_line(line: &str) -> Result<Vec<Instr>, String>
{
    let toks: Vec<&str> = line.split_whitespace().collect();
    let mut out = vec![];
    for chunk in toks.split(|t| *t == "&&")
    {
        if chunk.is_empty()
        {
            return Err(format!("empty instruction in {:?}", line));
        }
        let i = match chunk[0]
        {
            "emit" if chunk.len() >= 4 && chunk[2] == "copy" && chunk.len() == 4 =>
                Instr::EmitCopy { t: chunk[1].to_string(), src: chunk[3].to_string() },
            "emit" if chunk.len() == 4 && chunk[2] == "link" =>
                Instr::EmitLink { t: chunk[1].to_string(), src: chunk[3].to_string() },
            "emit" if chunk.len() == 4 && chunk[2] == "copyp" =>
                Instr::EmitCopyP { t: chunk[1].to_string(), src: chunk[3].to_string() },
            "emit" if chunk.len() == 4 && chunk[2] == "const" =>
                Instr::EmitConst { t: chunk[1].to_string(), tag: chunk[3].to_string() },
            "emit" if chunk.len() >= 4 && chunk[2] == "mix" =>
                Instr::EmitMix { t: chunk[1].to_string(), tag: chunk[3].to_string(), srcs: chunk[4..].iter().map(|s| s.to_string()).collect() },
            "chmodx" if chunk.len() == 2 => Instr::ChmodX { t: chunk[1].to_string() },
            "fail" if chunk.len() == 2 => Instr::Fail { tag: chunk[1].to_string() },
            "failif" if chunk.len() == 2 => Instr::FailIf { flag: chunk[1].to_string() },
            "failon" if chunk.len() == 3 => Instr::FailOn { src: chunk[1].to_string(), content: chunk[2].to_string() },
            "nop" if chunk.len() == 2 => Instr::Nop { tag: chunk[1].to_string() },
            "noise" if chunk.len() == 3 => Instr::Noise { err: chunk[1].parse().unwrap_or(0), out: chunk[2].parse().unwrap_or(0) },
            "dieif" if chunk.len() == 3 => Instr::DieIf { flag: chunk[1].to_string(), how: chunk[2].parse().unwrap_or(0) },
            _ => return Err(format!("bad instruction {:?}", chunk)),
        };
        out.push(i);
    }
    Ok(out)
}

pub fn mix_content(tag: &str, inputs: &[Vec<u8>]) -> Vec<u8>
{
    let hs: Vec<String> = inputs.iter().map(|c| hex(&sha256(c))[..6].to_string()).collect();
    format!("{}[{}]", tag, hs.join(",")).into_bytes()
}

/// Runs one script line; returns (exit code, stderr text).
pub fn run_line<F: CmdFs>(fs: &mut F, line: &str) -> (i32, String)
{
    let instrs = match parse_line(line)
    {
        Ok(i) => i,
        Err(e) => return (127, e),
    };
    for i in instrs
    {
        match i
        {
            Instr::EmitCopy { t, src } | Instr::EmitLink { t, src } =>
            {
                match fs.read(&src)
                {
                    Some(c) => if !fs.write(&t, &c) { return (1, format!("cannot write {}", t)); },
                    None => return (1, format!("{}: No such file", src)),
                }
            }
            Instr::EmitCopyP { t, src } =>
            {
                match fs.read(&src)
                {
                    Some(c) => { if !fs.write(&t, &c) { return (1, format!("cannot write {}", t)); } fs.copy_mtime(&src, &t); }
                    None => return (1, format!("{}: No such file", src)),
                }
            }
            Instr::EmitConst { t, tag } =>
            {
                if !fs.write(&t, tag.as_bytes()) { return (1, format!("cannot write {}", t)); }
            }
            Instr::EmitMix { t, tag, srcs } =>
            {
                let mut ins = vec![];
                for s in srcs.iter()
                {
                    match fs.read(s)
                    {
                        Some(c) => ins.push(c),
                        None => return (1, format!("{}: No such file", s)),
                    }
                }
                if !fs.write(&t, &mix_content(&tag, &ins)) { return (1, format!("cannot write {}", t)); }
            }
            Instr::ChmodX { t } =>
            {
                if !fs.chmodx(&t) { return (1, format!("chmod: {}: No such file", t)); }
            }
            Instr::Fail { tag } => return (1, format!("fail {}", tag)),
            Instr::FailIf { flag } =>
            {
                if fs.exists(&flag) { return (1, format!("flag {} present", flag)); }
            }
            Instr::FailOn { src, content } =>
            {
                match fs.read(&src)
                {
                    Some(c) => if c == content.as_bytes() { return (1, format!("{} holds {}", src, content)); },
                    None => return (1, format!("{}: No such file", src)),
                }
            }
            Instr::Nop { .. } | Instr::Noise { .. } => {}
            Instr::DieIf { flag, how } =>
            {
                if fs.exists(&flag) { return (if how == 0 { 3 } else { 137 }, format!("flag {} present", flag)); }
            }
        }
    }
    (0, String::new())
}
