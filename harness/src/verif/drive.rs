//! Runner plumbing: tiers, seeds, parallel proptest workers, statistics, evidence files,
//! replay files, known findings.

use std::cell::RefCell;
use std::collections::{BTreeMap, BTreeSet};
use std::fmt::Debug;
use std::sync::atomic::{AtomicBool, Ordering};
use std::sync::Mutex;
use std::time::Instant;

use proptest::strategy::Strategy;
use proptest::test_runner::{Config, RngAlgorithm, TestCaseError, TestError, TestRng, TestRunner};
use serde::de::DeserializeOwned;
use serde::Serialize;
use serde_json::{json, Value};

use super::sha256::sha256;

#[derive(Clone, Copy, Debug, PartialEq)]
pub enum Tier
{
    Quick,
    Thorough,
}

impl Tier
{
    pub fn name(&self) -> &'static str
    {
        match self
        {
            Tier::Quick => "quick",
            Tier::Thorough => "thorough",
        }
    }
    pub fn pick<T>(&self, q: T, t: T) -> T
    {
        match self
        {
            Tier::Quick => q,
            Tier::Thorough => t,
        }
    }
}

#[derive(Clone, Debug)]
pub struct Known
{
    pub property: String,
    pub signature: String,
    pub what: String,
    pub status: String,
}

pub struct Ctx
{
    pub id: String,
    pub tier: Tier,
    pub seed: u64,
    pub workers: usize,
    pub verif_dir: String,
    pub known: Vec<Known>,
    pub start: Instant,
    pub strict: bool,
}

impl Ctx
{
    pub fn open_finding(&self, signature: &str) -> Option<&Known>
    {
        self.known.iter().find(|k| k.property == self.id && k.status == "open" && k.signature == signature)
    }
}

pub fn load_known(verif_dir: &str) -> Vec<Known>
{
    let p = format!("{}/known_findings.json", verif_dir);
    let text = match std::fs::read_to_string(&p)
    {
        Ok(t) => t,
        Err(_) => return vec![],
    };
    let v: Value = match serde_json::from_str(&text)
    {
        Ok(v) => v,
        Err(_) => return vec![],
    };
    let mut out = vec![];
    if let Some(arr) = v.get("findings").and_then(|f| f.as_array())
    {
        for e in arr
        {
            out.push(Known
            {
                property: e.get("property").and_then(|x| x.as_str()).unwrap_or("").to_string(),
                signature: e.get("signature").and_then(|x| x.as_str()).unwrap_or("").to_string(),
                what: e.get("what").and_then(|x| x.as_str()).unwrap_or("").to_string(),
                status: e.get("status").and_then(|x| x.as_str()).unwrap_or("").to_string(),
            });
        }
    }
    out
}

#[derive(Default, Clone)]
pub struct Stats
{
    pub evaluations: u64,
    pub nontrivial: BTreeSet<u64>,
    pub classes: BTreeMap<String, u64>,
    pub samples: Vec<Value>,
    pub nontrivial_samples: Vec<Value>,
    pub excluded_known: BTreeMap<String, u64>,
    pub counters: BTreeMap<String, u64>,
    /// cases that are distinct by construction (exhaustive enumerations), counted not hashed
    pub nontrivial_extra: u64,
}

impl Stats
{
    pub fn class(&mut self, name: &str)
    {
        *self.classes.entry(name.to_string()).or_insert(0) += 1;
    }
    pub fn count(&mut self, name: &str, n: u64)
    {
        *self.counters.entry(name.to_string()).or_insert(0) += n;
    }
    pub fn nontrivial(&mut self, key: u64)
    {
        self.nontrivial.insert(key);
    }
    pub fn sample(&mut self, nontrivial: bool, f: impl FnOnce() -> Value)
    {
        if nontrivial
        {
            if self.nontrivial_samples.len() < 3
            {
                self.nontrivial_samples.push(f());
            }
        }
        else if self.samples.len() < 1
        {
            self.samples.push(f());
        }
    }
    pub fn known(&mut self, signature: &str)
    {
        *self.excluded_known.entry(signature.to_string()).or_insert(0) += 1;
    }
    pub fn merge(&mut self, o: Stats)
    {
        self.evaluations += o.evaluations;
        self.nontrivial_extra += o.nontrivial_extra;
        self.nontrivial.extend(o.nontrivial);
        for (k, v) in o.classes
        {
            *self.classes.entry(k).or_insert(0) += v;
        }
        for (k, v) in o.counters
        {
            *self.counters.entry(k).or_insert(0) += v;
        }
        for (k, v) in o.excluded_known
        {
            *self.excluded_known.entry(k).or_insert(0) += v;
        }
        for s in o.samples
        {
            if self.samples.len() < 2
            {
                self.samples.push(s);
            }
        }
        for s in o.nontrivial_samples
        {
            if self.nontrivial_samples.len() < 4
            {
                self.nontrivial_samples.push(s);
            }
        }
    }
}

pub fn key_of<T: Serialize>(v: &T) -> u64
{
    let s = serde_json::to_vec(v).unwrap_or_default();
    let h = sha256(&s);
    u64::from_le_bytes([h[0], h[1], h[2], h[3], h[4], h[5], h[6], h[7]])
}

#[derive(Clone, Debug)]
pub struct Failure
{
    pub reason: String,
    pub case: Value,
}

/// A panic escaping the code under test is a failure of the case, never a crash of the run.
fn guarded_test(f: impl FnOnce() -> Result<(), String>) -> Result<(), String>
{
    match super::sched::catch_quiet(f)
    {
        Ok(r) => r,
        Err(m) => Err(format!("panic in the code under test: {}", m)),
    }
}

fn rng_for(seed: u64, worker: usize, salt: u64) -> TestRng
{
    let mut material = vec![];
    material.extend_from_slice(&seed.to_le_bytes());
    material.extend_from_slice(&(worker as u64).to_le_bytes());
    material.extend_from_slice(&salt.to_le_bytes());
    let h = sha256(&material);
    TestRng::from_seed(RngAlgorithm::ChaCha, &h)
}

/// Runs `cases` generated cases split over the workers.  `test` gets the case and the
/// worker's statistics; it is re-run during shrinking with throw-away statistics.
pub fn drive<S, F>(ctx: &Ctx, salt: u64, cases: u32, strat: impl Fn() -> S + Sync, test: F) -> (Stats, Vec<Failure>)
where
    S: Strategy,
    S::Value: Serialize + Clone + Debug,
    F: Fn(&S::Value, &mut Stats) -> Result<(), String> + Sync,
{
    drive_opts(ctx, salt, cases, 4000, strat, test)
}

/// As `drive`, with an explicit bound on shrink iterations (expensive cases: real processes).
pub fn drive_opts<S, F>(ctx: &Ctx, salt: u64, cases: u32, max_shrink: u32, strat: impl Fn() -> S + Sync, test: F) -> (Stats, Vec<Failure>)
where
    S: Strategy,
    S::Value: Serialize + Clone + Debug,
    F: Fn(&S::Value, &mut Stats) -> Result<(), String> + Sync,
{
    let workers = ctx.workers.max(1).min(cases.max(1) as usize);
    let stop = AtomicBool::new(false);
    let all = Mutex::new((Stats::default(), Vec::<Failure>::new()));
    std::thread::scope(|sc|
    {
        for w in 0..workers
        {
            let share = cases / workers as u32 + if (w as u32) < cases % workers as u32 { 1 } else { 0 };
            let strat = &strat;
            let test = &test;
            let stop = &stop;
            let all = &all;
            let seed = ctx.seed;
            sc.spawn(move ||
            {
                if share == 0
                {
                    return;
                }
                let cfg = Config
                {
                    cases: share,
                    failure_persistence: None,
                    max_shrink_iters: max_shrink,
                    max_global_rejects: 65536,
                    ..Config::default()
                };
                let mut runner = TestRunner::new_with_rng(cfg, rng_for(seed, w, salt));
                let stats = RefCell::new(Stats::default());
                let failed = RefCell::new(false);
                let strategy = strat();
                let res = runner.run(&strategy, |v|
                {
                    if stop.load(Ordering::Relaxed) && !*failed.borrow()
                    {
                        return Ok(());
                    }
                    let r = if *failed.borrow()
                    {
                        let mut scratch = Stats::default();
                        guarded_test(|| test(&v, &mut scratch))
                    }
                    else
                    {
                        let mut st = stats.borrow_mut();
                        st.evaluations += 1;
                        guarded_test(|| test(&v, &mut st))
                    };
                    match r
                    {
                        Ok(()) => Ok(()),
                        Err(m) =>
                        {
                            *failed.borrow_mut() = true;
                            Err(TestCaseError::fail(m))
                        }
                    }
                });
                let mut g = all.lock().unwrap();
                g.0.merge(stats.into_inner());
                match res
                {
                    Ok(()) => {}
                    Err(TestError::Fail(reason, value)) =>
                    {
                        stop.store(true, Ordering::Relaxed);
                        g.1.push(Failure { reason: format!("{}", reason), case: serde_json::to_value(&value).unwrap_or(Value::Null) });
                    }
                    Err(TestError::Abort(reason)) =>
                    {
                        g.1.push(Failure { reason: format!("proptest aborted: {}", reason), case: Value::Null });
                    }
                }
            });
        }
    });
    all.into_inner().unwrap()
}

/// Plain exhaustive / explicit-list driver with the same statistics (no proptest).
pub fn drive_list<T, F>(ctx: &Ctx, items: Vec<T>, test: F) -> (Stats, Vec<Failure>)
where
    T: Serialize + Sync,
    F: Fn(&T, &mut Stats) -> Result<(), String> + Sync,
{
    let workers = ctx.workers.max(1);
    let all = Mutex::new((Stats::default(), Vec::<Failure>::new()));
    let next = std::sync::atomic::AtomicUsize::new(0);
    std::thread::scope(|sc|
    {
        for _w in 0..workers
        {
            let items = &items;
            let test = &test;
            let all = &all;
            let next = &next;
            sc.spawn(move ||
            {
                let mut st = Stats::default();
                let mut fails = vec![];
                loop
                {
                    let i = next.fetch_add(1, Ordering::Relaxed);
                    if i >= items.len()
                    {
                        break;
                    }
                    st.evaluations += 1;
                    if let Err(m) = guarded_test(|| test(&items[i], &mut st))
                    {
                        if fails.len() < 3
                        {
                            fails.push(Failure { reason: m, case: serde_json::to_value(&items[i]).unwrap_or(Value::Null) });
                        }
                    }
                }
                let mut g = all.lock().unwrap();
                g.0.merge(st);
                g.1.extend(fails);
            });
        }
    });
    all.into_inner().unwrap()
}

pub struct Report
{
    pub stats: Stats,
    pub failures: Vec<Failure>,
    pub rule: String,
    pub assumptions: Vec<String>,
    pub level: &'static str,
    pub exhaustive: bool,
    pub extra: Value,
}

impl Report
{
    pub fn new(level: &'static str, rule: &str) -> Report
    {
        Report { stats: Stats::default(), failures: vec![], rule: rule.to_string(), assumptions: vec![], level, exhaustive: false, extra: json!({}) }
    }
    pub fn absorb(&mut self, r: (Stats, Vec<Failure>))
    {
        self.stats.merge(r.0);
        self.failures.extend(r.1);
    }
    pub fn assume(&mut self, a: &str)
    {
        self.assumptions.push(a.to_string());
    }
}

/// Writes evidence, replay files and the VIOLATION / KNOWN-FINDING lines; returns exit code.
pub fn finish(ctx: &Ctx, rep: Report) -> i32
{
    let wall = ctx.start.elapsed().as_secs_f64();
    let mut samples = rep.stats.nontrivial_samples.clone();
    samples.extend(rep.stats.samples.clone());
    if samples.is_empty()
    {
        samples.push(json!("no sample recorded"));
    }
    let mut coverage = json!({
        "evaluations": rep.stats.evaluations,
        "distinct_nontrivial": rep.stats.nontrivial.len() as u64 + rep.stats.nontrivial_extra,
        "rule": rep.rule,
        "samples": samples,
        "classes": rep.stats.classes,
        "counters": rep.stats.counters,
        "excluded_known": rep.stats.excluded_known,
        "workers": ctx.workers,
    });
    if rep.exhaustive
    {
        coverage["exhaustive"] = json!(true);
    }
    if let Some(o) = rep.extra.as_object()
    {
        for (k, v) in o
        {
            coverage[k] = v.clone();
        }
    }
    let ev = json!({
        "property_id": ctx.id,
        "tier": ctx.tier.name(),
        "seed": ctx.seed,
        "level": rep.level,
        "coverage": coverage,
        "assumptions": rep.assumptions,
        "wall_s": wall,
        "violations": rep.failures.len(),
    });
    let edir = format!("{}/evidence", ctx.verif_dir);
    let _ = std::fs::create_dir_all(&edir);
    let epath = format!("{}/{}.json", edir, ctx.id);
    if let Err(e) = std::fs::write(&epath, serde_json::to_string_pretty(&ev).unwrap())
    {
        eprintln!("cannot write evidence {}: {}", epath, e);
        return 2;
    }
    for k in ctx.known.iter().filter(|k| k.property == ctx.id && k.status == "open")
    {
        println!("KNOWN-FINDING: property={} {} (signature {}; excluded cases this run: {})",
            ctx.id, k.what, k.signature, rep.stats.excluded_known.get(&k.signature).cloned().unwrap_or(0));
    }
    let mut code = 0;
    let rdir = format!("{}/replays", ctx.verif_dir);
    for f in rep.failures.iter()
    {
        let _ = std::fs::create_dir_all(&rdir);
        let body = json!({ "property": ctx.id, "reason": f.reason, "case": f.case, "seed": ctx.seed, "tier": ctx.tier.name() });
        let text = serde_json::to_string_pretty(&body).unwrap();
        let h = super::sha256::hex(&sha256(text.as_bytes()));
        let path = format!("{}/{}-{}.json", rdir, ctx.id, &h[..12]);
        let _ = std::fs::write(&path, text);
        println!("VIOLATION property={} replay={}", ctx.id, path);
        eprintln!("  reason: {}", f.reason.lines().take(12).collect::<Vec<_>>().join("\n          "));
        code = 1;
    }
    println!("{} {}: evaluations={} distinct_nontrivial={} violations={} wall={:.1}s",
        ctx.id, ctx.tier.name(), rep.stats.evaluations, rep.stats.nontrivial.len() as u64 + rep.stats.nontrivial_extra, rep.failures.len(), wall);
    code
}

pub fn parse_case<T: DeserializeOwned>(v: &Value) -> Result<T, String>
{
    serde_json::from_value(v.clone()).map_err(|e| format!("replay file does not hold a case of this property: {}", e))
}
