//! History engine: a `World` (VerifSystem + reference model), an interpreter for
//! generated operations, and controlled invocations of ruler's `build` / `clean` that
//! return everything the oracles need (result, call log, commands, printed lines,
//! before/after snapshots, the reference evaluation).

use std::collections::{BTreeMap, BTreeSet};
use std::sync::{Arc, Mutex};

use serde::{Deserialize, Serialize};
use termcolor::Color;

use crate::build::{self, BuildError, BuildParams};
use crate::printer::Printer;
use crate::work::WorkError;

use super::cmd::Instr;
use super::gen::{self, GraphSpec, Names, Op, RuleSpec, Sched};
use super::model::{MRule, Model, RefEval};
use super::sched::{self, Events, Policy};
use super::vsys::{Clock, CmdExec, CrashPlan, LogEntry, Snapshot, VerifSystem};

pub const RULER_DIR: &str = ".ruler";

#[derive(Clone, Debug, PartialEq, Eq, PartialOrd, Ord, Serialize, Deserialize)]
pub enum WErr
{
    FileNotFound(String),
    NotGenerated(String),
    CmdErrored,
    Contradiction(Vec<String>),
    NoCommand,
    Other(String),
}

#[derive(Clone, Debug, PartialEq, Serialize, Deserialize)]
pub enum ErrSum
{
    WorkErrors(Vec<WErr>),
    TopoSort(String),
    Parse(String),
    History(String),
    Table(String),
    Directory,
    Sender,
    Receiver,
    Weird,
    Other(String),
}

pub fn summarize_work(e: &WorkError) -> WErr
{
    match e
    {
        WorkError::FileNotFound(p) => WErr::FileNotFound(p.clone()),
        WorkError::TargetFileNotGenerated(p) => WErr::NotGenerated(p.clone()),
        WorkError::CommandExecutedButErrored => WErr::CmdErrored,
        WorkError::NoCommandExecuted => WErr::NoCommand,
        WorkError::Contradiction(v) => { let mut v = v.clone(); v.sort(); WErr::Contradiction(v) }
        other => WErr::Other(format!("{}", other)),
    }
}

pub fn summarize(e: &BuildError) -> ErrSum
{
    match e
    {
        BuildError::WorkErrors(v) => { let mut w: Vec<WErr> = v.iter().map(summarize_work).collect(); w.sort(); ErrSum::WorkErrors(w) }
        BuildError::TopologicalSortFailed(t) => ErrSum::TopoSort(format!("{:?}", t)),
        BuildError::RuleFileFailedToParse(p) => ErrSum::Parse(format!("{:?}", p)),
        BuildError::HistoryError(h) => ErrSum::History(format!("{}", h)),
        BuildError::FailedToReadCurrentFileStates(c) => ErrSum::Table(format!("{}", c)),
        BuildError::DirectoryMalfunction => ErrSum::Directory,
        BuildError::SenderError(_) => ErrSum::Sender,
        BuildError::ReceiverError(_) => ErrSum::Receiver,
        BuildError::Weird => ErrSum::Weird,
        other => ErrSum::Other(format!("{}", other)),
    }
}

#[derive(Clone, Debug, PartialEq, Serialize, Deserialize)]
pub enum PLine
{
    Banner { text: String, path: String },
    Out(String),
    Err(String),
}

#[derive(Clone)]
pub struct RecPrinter
{
    pub lines: Arc<Mutex<Vec<PLine>>>,
}

impl RecPrinter
{
    pub fn new() -> RecPrinter
    {
        RecPrinter { lines: Arc::new(Mutex::new(vec![])) }
    }
}

impl Printer for RecPrinter
{
    fn print_single_banner_line(&mut self, banner_text: &str, _banner_color: Color, path: &str)
    {
        self.lines.lock().unwrap().push(PLine::Banner { text: banner_text.trim().to_string(), path: path.to_string() });
    }
    fn print(&mut self, text: &str)
    {
        self.lines.lock().unwrap().push(PLine::Out(text.to_string()));
    }
    fn error(&mut self, text: &str)
    {
        self.lines.lock().unwrap().push(PLine::Err(text.to_string()));
    }
}

#[derive(Clone, Debug, PartialEq, Serialize, Deserialize)]
pub enum Inv
{
    Build(Option<String>),
    Clean(Option<String>),
}

impl Inv
{
    pub fn goal(&self) -> Option<&str>
    {
        match self
        {
            Inv::Build(g) | Inv::Clean(g) => g.as_deref(),
        }
    }
    pub fn is_build(&self) -> bool
    {
        matches!(self, Inv::Build(_))
    }
}

pub struct Obs
{
    pub inv: Inv,
    /// None when the invocation did not return (crash injected, panic, deadlock)
    pub result: Option<Result<(), ErrSum>>,
    /// what the user is shown for a failed invocation: `Display` of the error value, as main.rs prints it
    pub error_text: Option<String>,
    pub panics: Vec<String>,
    pub deadlock: Option<String>,
    pub aborted: Option<String>,
    pub steps: u64,
    pub trace: Vec<u16>,
    pub events: Events,
    pub leftover_threads: usize,
    pub log: Vec<LogEntry>,
    pub cmds: Vec<CmdExec>,
    pub printed: Vec<PLine>,
    pub pre: Snapshot,
    pub post: Snapshot,
    pub reference: RefEval,
    pub mutations: u64,
    pub mutation_kinds: Vec<(super::vsys::Op, bool)>,
    pub sched_used: Sched,
    /// tagged yield points (thread, "op:path") in execution order, when requested
    pub yields: Vec<(usize, String)>,
}

impl Obs
{
    pub fn ok(&self) -> bool
    {
        matches!(self.result, Some(Ok(())))
    }

    /// index of the rule whose command this execution ran (by script text)
    pub fn executed_rules(&self, model: &Model) -> Vec<usize>
    {
        let mut v = vec![];
        for c in self.cmds.iter()
        {
            let key = c.lines.join("\n");
            if let Some(i) = model.rules.iter().position(|r| r.script_key() == key)
            {
                v.push(i);
            }
        }
        v
    }
}

pub fn cache_entries(s: &Snapshot) -> BTreeMap<String, Vec<u8>>
{
    let prefix = format!("{}/cache/", RULER_DIR);
    s.iter().filter(|(k, _)| k.starts_with(&prefix)).map(|(k, v)| (k[prefix.len()..].to_string(), v.data.clone())).collect()
}

pub fn in_ruler_dir(path: &str) -> bool
{
    path == RULER_DIR || path.starts_with(&format!("{}/", RULER_DIR))
}

pub fn make_policy(s: &Sched, horizon: u64, taken: Arc<Mutex<u32>>, diverged: Arc<Mutex<bool>>) -> Box<dyn Policy>
{
    match s
    {
        Sched::Serial { highest } => Box::new(sched::Serial { highest: *highest }),
        Sched::Preempt { highest, points } =>
        {
            let pts = points.iter().map(|(f, c)| (1 + ((*f as u64) * horizon.max(1) >> 16), *c)).collect();
            Box::new(sched::Preempt { highest: *highest, points: pts, taken })
        }
        Sched::PreemptAt { highest, points } => Box::new(sched::Preempt { highest: *highest, points: points.clone(), taken }),
        Sched::Random { seed, switch_num } => Box::new(sched::RandomWalk { rng: sched::XorShift::new(*seed), switch_num: *switch_num as u64 }),
        Sched::Pct { seed, d } => Box::new(sched::Pct::new(*seed, *d as usize, horizon)),
        Sched::Trace { trace } => Box::new(sched::Replay { trace: trace.clone(), pos: 0, diverged }),
        Sched::OnTag { points } => Box::new(sched::PreemptOnTag { points: points.clone(), seen: std::collections::HashMap::new(), taken }),
    }
}

#[derive(Clone)]
pub struct World
{
    pub sys: VerifSystem,
    pub model: Model,
    pub names: Names,
    pub leaves: Vec<String>,
    pub leaf_history: BTreeMap<String, Vec<Vec<u8>>>,
    pub retags: u32,
    pub invocations: u64,
    pub noop_ops: u64,
    pub old_stamps: u64,
    /// every path that was ever declared as a target in this history (C08's P)
    pub ever_targets: BTreeSet<String>,
}

#[derive(Clone, Debug, PartialEq)]
pub enum Applied
{
    Noop,
    UserAction(String),
    Invocation(Inv),
}

impl World
{
    pub fn new(g: &GraphSpec, clock: Clock) -> World
    {
        let (model, names) = gen::build_model(g);
        let sys = VerifSystem::new(clock);
        for d in model.dirs.iter()
        {
            sys.h_mkdir_all(d);
        }
        for (p, c) in model.files.iter()
        {
            sys.h_write(p, c);
        }
        let leaves: Vec<String> = model.files.keys().cloned().collect();
        // undeclared bystander files ruler has no business with (C09)
        sys.h_write("bystander.txt", b"keep me");
        sys.h_write("notes.rules.bak", b"a\n:\nb\n:\nc\n:\n");
        for d in model.dirs.iter()
        {
            sys.h_write(&format!("{}/keep", d), b"keep");
        }
        let mut w = World
        {
            sys,
            model,
            names,
            leaves,
            leaf_history: BTreeMap::new(),
            retags: 0,
            invocations: 0,
            noop_ops: 0,
            old_stamps: 0,
            ever_targets: BTreeSet::new(),
        };
        w.sync_rules();
        w
    }

    pub fn fork(&self) -> World
    {
        let mut w = self.clone();
        w.sys = self.sys.fork();
        w
    }

    pub fn sync_rules(&mut self)
    {
        for (fi, name) in self.model.rule_files.clone().iter().enumerate()
        {
            let text = self.model.render_file(fi);
            if self.sys.h_read(name).map(|c| c != text.as_bytes()).unwrap_or(true)
            {
                self.sys.h_write(name, text.as_bytes());
            }
        }
        for t in self.model.all_targets()
        {
            self.ever_targets.insert(t);
        }
        let mut rs = BTreeMap::new();
        for r in self.model.rules.iter()
        {
            rs.insert(r.script_key(), r.sorted_sources());
        }
        self.sys.lock().rule_sources = rs;
    }

    fn set_leaf(&mut self, leaf: &str, content: Vec<u8>)
    {
        if let Some(old) = self.model.files.get(leaf)
        {
            self.leaf_history.entry(leaf.to_string()).or_default().push(old.clone());
        }
        self.sys.h_write(leaf, &content);
        self.model.files.insert(leaf.to_string(), content);
    }

    pub fn goal_path(&self, g: Option<u16>) -> Option<String>
    {
        match g
        {
            None => None,
            Some(i) =>
            {
                let ts = self.model.all_targets();
                if ts.is_empty() { None } else { Some(ts[gen::pick(i, ts.len())].clone()) }
            }
        }
    }

    /// Applies a non-invocation op to model and file system; for Build/Clean returns the
    /// invocation to perform (the caller chooses schedule and crash plan).
    pub fn apply(&mut self, op: &Op) -> Applied
    {
        self.sys.tick();
        let nrules = self.model.rules.len();
        let r = match op
        {
            Op::Build { goal } => return Applied::Invocation(Inv::Build(self.goal_path(*goal))),
            Op::Clean { goal } => return Applied::Invocation(Inv::Clean(self.goal_path(*goal))),
            Op::Edit { leaf, content } =>
            {
                let l = self.leaves[gen::pick(*leaf, self.leaves.len())].clone();
                if super::model::under_missing_dir(&self.model.missing_dirs, &l) { Applied::Noop } else
                {
                    self.set_leaf(&l, gen::content(*content));
                    Applied::UserAction(format!("edit {}", l))
                }
            }
            Op::Revert { leaf } =>
            {
                let l = self.leaves[gen::pick(*leaf, self.leaves.len())].clone();
                let cur = self.model.files.get(&l).cloned();
                let prev = self.leaf_history.get(&l).and_then(|h| h.iter().rev().find(|c| Some(*c) != cur.as_ref()).cloned());
                match prev
                {
                    Some(p) if !super::model::under_missing_dir(&self.model.missing_dirs, &l) => { self.set_leaf(&l, p); Applied::UserAction(format!("revert {}", l)) }
                    _ => Applied::Noop,
                }
            }
            Op::Swap { a, b } =>
            {
                let la = self.leaves[gen::pick(*a, self.leaves.len())].clone();
                let lb = self.leaves[gen::pick(*b, self.leaves.len())].clone();
                match (self.model.files.get(&la).cloned(), self.model.files.get(&lb).cloned())
                {
                    (Some(ca), Some(cb)) if la != lb && ca != cb && !super::model::under_missing_dir(&self.model.missing_dirs, &la) && !super::model::under_missing_dir(&self.model.missing_dirs, &lb) =>
                    {
                        self.set_leaf(&la, cb);
                        self.set_leaf(&lb, ca);
                        Applied::UserAction(format!("swap {} {}", la, lb))
                    }
                    _ => Applied::Noop,
                }
            }
            Op::DeleteLeaf { leaf } =>
            {
                let l = self.leaves[gen::pick(*leaf, self.leaves.len())].clone();
                if self.model.files.remove(&l).is_some()
                {
                    self.sys.h_remove(&l);
                    Applied::UserAction(format!("delete leaf {}", l))
                }
                else
                {
                    Applied::Noop
                }
            }
            Op::Retag { rule } =>
            {
                let ri = gen::pick(*rule, nrules);
                self.retags += 1;
                let n = self.retags;
                let mut done = false;
                for chain in self.model.rules[ri].script.iter_mut()
                {
                    for ins in chain.iter_mut()
                    {
                        if done
                        {
                            break;
                        }
                        match ins
                        {
                            Instr::EmitMix { tag, .. } | Instr::EmitConst { tag, .. } =>
                            {
                                let base = tag.split("~").next().unwrap().to_string();
                                *tag = format!("{}~{}", base, n);
                                done = true;
                            }
                            _ => {}
                        }
                    }
                }
                if !done
                {
                    // a copy-only rule: change the command text without changing what it does
                    self.model.rules[ri].script.push(vec![Instr::Nop { tag: format!("r{}", n) }]);
                }
                Applied::UserAction(format!("retag rule {}", ri))
            }
            Op::AddSource { rule, src } =>
            {
                let ri = gen::pick(*rule, nrules);
                let mut cands: Vec<String> = self.leaves.iter().filter(|l| self.model.files.contains_key(*l)).cloned().collect();
                for j in 0..ri
                {
                    cands.extend(self.model.rules[j].targets.iter().cloned());
                }
                cands.retain(|c| !self.model.rules[ri].sources.contains(c));
                if cands.is_empty()
                {
                    Applied::Noop
                }
                else
                {
                    let s = cands[gen::pick(*src, cands.len())].clone();
                    let r = &mut self.model.rules[ri];
                    r.sources.push(s.clone());
                    for chain in r.script.iter_mut()
                    {
                        for ins in chain.iter_mut()
                        {
                            if let Instr::EmitMix { srcs, .. } = ins
                            {
                                if srcs.len() > 1
                                {
                                    srcs.push(s.clone());
                                }
                            }
                        }
                    }
                    Applied::UserAction(format!("add source {} to rule {}", s, ri))
                }
            }
            Op::RemoveSource { rule, k } =>
            {
                let ri = gen::pick(*rule, nrules);
                let r = &self.model.rules[ri];
                if r.sources.len() < 2
                {
                    Applied::Noop
                }
                else
                {
                    let s = r.sources[gen::pick(*k, r.sources.len())].clone();
                    let needed = r.script.iter().flatten().any(|ins| match ins
                    {
                        Instr::EmitCopy { src, .. } => *src == s,
                        Instr::FailOn { src, .. } => *src == s,
                        Instr::EmitMix { srcs, .. } => srcs.len() == 1 && srcs[0] == s,
                        _ => false,
                    });
                    if needed
                    {
                        Applied::Noop
                    }
                    else
                    {
                        let r = &mut self.model.rules[ri];
                        r.sources.retain(|x| *x != s);
                        for chain in r.script.iter_mut()
                        {
                            for ins in chain.iter_mut()
                            {
                                if let Instr::EmitMix { srcs, .. } = ins
                                {
                                    srcs.retain(|x| *x != s);
                                }
                            }
                        }
                        Applied::UserAction(format!("remove source {} from rule {}", s, ri))
                    }
                }
            }
            Op::AddTarget { rule } =>
            {
                let ri = gen::pick(*rule, nrules);
                if self.model.rules[ri].targets.len() >= 4
                {
                    Applied::Noop
                }
                else
                {
                    let t = self.names.fresh();
                    let r = &mut self.model.rules[ri];
                    r.targets.push(t.clone());
                    let srcs = r.sources.clone();
                    let ins = Instr::EmitMix { t: t.clone(), tag: format!("T{}", t.replace('/', "_")), srcs };
                    if r.script.is_empty() { r.script.push(vec![]); }
                    r.script.last_mut().unwrap().push(ins);
                    Applied::UserAction(format!("add target {} to rule {}", t, ri))
                }
            }
            Op::RemoveTarget { rule, k } =>
            {
                let ri = gen::pick(*rule, nrules);
                let r = &self.model.rules[ri];
                if r.targets.len() < 2
                {
                    Applied::Noop
                }
                else
                {
                    let t = r.targets[gen::pick(*k, r.targets.len())].clone();
                    let used = self.model.rules.iter().any(|q| q.sources.contains(&t))
                        || r.script.iter().flatten().any(|ins| match ins
                        {
                            Instr::EmitCopy { src, .. } => *src == t,
                            Instr::EmitMix { srcs, .. } => srcs.contains(&t),
                            _ => false,
                        });
                    if used
                    {
                        Applied::Noop
                    }
                    else
                    {
                        self.retags += 1;
                        let uniq = self.retags;
                        let r = &mut self.model.rules[ri];
                        r.targets.retain(|x| *x != t);
                        for chain in r.script.iter_mut()
                        {
                            chain.retain(|ins| ins.target() != Some(t.as_str()));
                        }
                        r.script.retain(|c| !c.is_empty());
                        if r.script.is_empty()
                        {
                            r.script.push(vec![Instr::Nop { tag: format!("e{}", uniq) }]);
                        }
                        Applied::UserAction(format!("remove target {} from rule {}", t, ri))
                    }
                }
            }
            Op::AddRule { spec } =>
            {
                if nrules >= 14
                {
                    Applied::Noop
                }
                else
                {
                    let mut cands: Vec<String> = self.leaves.iter().filter(|l| self.model.files.contains_key(*l)).cloned().collect();
                    if cands.is_empty()
                    {
                        cands = self.leaves.clone();
                    }
                    for r in self.model.rules.iter()
                    {
                        cands.extend(r.targets.iter().cloned());
                    }
                    let file = if self.model.rule_files.len() > 1 && nrules % 2 == 1 { 1 } else { 0 };
                    let leaves = self.leaves.clone();
                    let r = gen::build_rule(spec, &cands, &leaves, &mut self.names, file);
                    self.model.rules.push(r);
                    Applied::UserAction("add rule".to_string())
                }
            }
            Op::RemoveRule { rule } =>
            {
                let ri = gen::pick(*rule, nrules);
                if nrules < 2 || !self.model.dependents_of_rule(ri).is_empty()
                {
                    Applied::Noop
                }
                else
                {
                    self.model.rules.remove(ri);
                    Applied::UserAction(format!("remove rule {}", ri))
                }
            }
            Op::OrphanRule { rule } =>
            {
                let with_deps: Vec<usize> = (0..nrules).filter(|i| !self.model.dependents_of_rule(*i).is_empty()).collect();
                if with_deps.is_empty() || nrules < 2
                {
                    Applied::Noop
                }
                else
                {
                    let ri = with_deps[gen::pick(*rule, with_deps.len())];
                    let gone = self.model.rules.remove(ri);
                    // whatever sits at its target paths now is an ordinary file of the user (or is missing)
                    for t in gone.targets.iter()
                    {
                        match self.sys.h_read(t)
                        {
                            Some(c) => { self.model.files.insert(t.clone(), c); }
                            None => { self.model.files.remove(t); }
                        }
                    }
                    Applied::UserAction(format!("remove rule {:?}; its targets become plain sources", gone.targets))
                }
            }
            Op::Reformat { seed, bundle } =>
            {
                self.model.render.perm_seed = *seed as u64;
                self.model.render.bundle = *bundle;
                self.model.render.blank_between = 1 + (*seed as usize % 3);
                self.model.render.leading_blank = *seed as usize % 2;
                self.model.render.final_newline = *seed % 5 != 0;
                Applied::UserAction("reformat".to_string())
            }
            Op::Tamper { t, content } =>
            {
                let ts = self.model.all_targets();
                let p = ts[gen::pick(*t, ts.len())].clone();
                if super::model::under_missing_dir(&self.model.missing_dirs, &p) { Applied::Noop } else
                {
                    self.sys.h_write(&p, &gen::content(*content));
                    Applied::UserAction(format!("tamper {}", p))
                }
            }
            Op::TamperOld { t, content } =>
            {
                // a distinct write that happened in the past: its own, never reused, old modification time
                let ts = self.model.all_targets();
                let p = ts[gen::pick(*t, ts.len())].clone();
                if super::model::under_missing_dir(&self.model.missing_dirs, &p) { Applied::Noop } else
                {
                    self.old_stamps += 1;
                    let mtime = super::vsys::EPOCH_US - 1_000_000 - self.old_stamps;
                    self.sys.h_write_at(&p, &gen::content(*content), mtime);
                    Applied::UserAction(format!("replace {} by an older file", p))
                }
            }
            Op::DeleteTarget { t } =>
            {
                let ts = self.model.all_targets();
                let p = ts[gen::pick(*t, ts.len())].clone();
                if self.sys.h_remove(&p) { Applied::UserAction(format!("delete target {}", p)) } else { Applied::Noop }
            }
            Op::DeleteCacheEntry { k } =>
            {
                let l = self.sys.h_list(&format!("{}/cache", RULER_DIR));
                if l.is_empty() { Applied::Noop } else
                {
                    let p = l[gen::pick(*k, l.len())].clone();
                    self.sys.h_remove(&p);
                    Applied::UserAction(format!("delete cache entry {}", p))
                }
            }
            Op::DeleteHistoryFile { k } =>
            {
                let l = self.sys.h_list(&format!("{}/history", RULER_DIR));
                if l.is_empty() { Applied::Noop } else
                {
                    let p = l[gen::pick(*k, l.len())].clone();
                    self.sys.h_remove(&p);
                    Applied::UserAction(format!("delete history file {}", p))
                }
            }
            Op::RemoveDir { d } =>
            {
                let present: Vec<String> = self.model.dirs.iter().filter(|x| !self.model.missing_dirs.contains(*x)).cloned().collect();
                if present.is_empty() { Applied::Noop } else
                {
                    let dir = present[gen::pick(*d, present.len())].clone();
                    self.sys.h_remove(&dir);
                    let gone: Vec<String> = self.model.files.keys().filter(|k| k.starts_with(&format!("{}/", dir))).cloned().collect();
                    for k in gone
                    {
                        if let Some(old) = self.model.files.remove(&k) { self.leaf_history.entry(k).or_default().push(old); }
                    }
                    self.model.missing_dirs.insert(dir.clone());
                    Applied::UserAction(format!("remove directory {}", dir))
                }
            }
            Op::MakeDir { d } =>
            {
                let missing: Vec<String> = self.model.missing_dirs.iter().cloned().collect();
                if missing.is_empty() { Applied::Noop } else
                {
                    let dir = missing[gen::pick(*d, missing.len())].clone();
                    self.sys.h_mkdir_all(&dir);
                    self.model.missing_dirs.remove(&dir);
                    Applied::UserAction(format!("make directory {}", dir))
                }
            }
            Op::DeleteRulerDir => if self.sys.h_remove(RULER_DIR) { Applied::UserAction("delete ruler dir".into()) } else { Applied::Noop },
            Op::DeleteHistory => if self.sys.h_remove(&format!("{}/history", RULER_DIR)) { Applied::UserAction("delete history".into()) } else { Applied::Noop },
            Op::DeleteCache => if self.sys.h_remove(&format!("{}/cache", RULER_DIR)) { Applied::UserAction("delete cache".into()) } else { Applied::Noop },
            Op::DeleteTable => if self.sys.h_remove(&format!("{}/current_file_states", RULER_DIR)) { Applied::UserAction("delete table".into()) } else { Applied::Noop },
        };
        if r == Applied::Noop
        {
            self.noop_ops += 1;
        }
        else
        {
            self.sync_rules();
        }
        r
    }

    fn run_inv(sys: VerifSystem, model: &Model, inv: &Inv, policy: Box<dyn Policy>, record_trace: bool, printer: RecPrinter)
        -> sched::RunOutcome<Result<(), BuildError>>
    {
        World::run_inv_opts(sys, model, inv, policy, record_trace, false, printer)
    }

    fn run_inv_opts(sys: VerifSystem, model: &Model, inv: &Inv, policy: Box<dyn Policy>, record_trace: bool, record_yields: bool, printer: RecPrinter)
        -> sched::RunOutcome<Result<(), BuildError>>
    {
        let rule_files = model.rule_files.clone();
        let inv = inv.clone();
        sched::run_controlled_opts(policy, record_trace, record_yields, move ||
        {
            let mut p = printer;
            match inv
            {
                Inv::Build(goal) => build::build(sys, &mut p, BuildParams::from_all(RULER_DIR.to_string(), rule_files, None, goal)),
                Inv::Clean(goal) => build::clean(sys, RULER_DIR, rule_files, goal),
            }
        })
    }

    /// Number of yield points of this invocation under the serial schedule (on a fork).
    pub fn dry_run_steps(&self, inv: &Inv) -> (u64, u64)
    {
        let f = self.fork();
        f.sys.reset_observation();
        let out = World::run_inv(f.sys.clone(), &f.model, inv, Box::new(sched::Serial { highest: false }), false, RecPrinter::new());
        let m = f.sys.lock().mutations;
        (out.steps, m)
    }

    /// The tagged yield points (thread, "op:path") of this invocation under the serial schedule (on a fork).
    pub fn dry_run_yields(&self, inv: &Inv) -> Vec<(usize, String)>
    {
        let f = self.fork();
        f.sys.reset_observation();
        let rule_files = f.model.rule_files.clone();
        let inv = inv.clone();
        let sys = f.sys.clone();
        let out = sched::run_controlled_opts(Box::new(sched::Serial { highest: false }), false, true, move ||
        {
            let mut p = RecPrinter::new();
            match inv
            {
                Inv::Build(goal) => build::build(sys, &mut p, BuildParams::from_all(RULER_DIR.to_string(), rule_files, None, goal)).is_ok(),
                Inv::Clean(goal) => build::clean(sys, RULER_DIR, rule_files, goal).is_ok(),
            }
        });
        out.yields
    }

    pub fn invoke(&mut self, inv: Inv, sch: &Sched, crash: Option<CrashPlan>) -> Obs
    {
        self.invoke_opts(inv, sch, crash, false)
    }

    pub fn invoke_opts(&mut self, inv: Inv, sch: &Sched, crash: Option<CrashPlan>, record_yields: bool) -> Obs
    {
        self.sys.tick();
        self.invocations += 1;
        self.sync_rules();
        let horizon = match sch
        {
            Sched::Preempt { .. } | Sched::Pct { .. } => self.dry_run_steps(&inv).0,
            _ => 0,
        };
        let reference = self.model.eval(inv.goal());
        let pre = self.sys.snapshot();
        self.sys.reset_observation();
        self.sys.lock().crash = crash;
        let taken = Arc::new(Mutex::new(0u32));
        let diverged = Arc::new(Mutex::new(false));
        let policy = make_policy(sch, horizon, taken, diverged);
        let printer = RecPrinter::new();
        let out = World::run_inv_opts(self.sys.clone(), &self.model, &inv, policy, true, record_yields, printer.clone());
        let (log, cmds) = self.sys.take_log();
        let (mutations, mutation_kinds) =
        {
            let mut g = self.sys.lock();
            g.crash = None;
            g.frozen = false;
            (g.mutations, std::mem::take(&mut g.mutation_kinds))
        };
        let post = self.sys.snapshot();
        let printed = printer.lines.lock().unwrap().clone();
        if std::env::var("VERIF_TRACE").is_ok()
        {
            eprintln!("--- {:?} under {:?}", inv, sch);
            for e in log.iter()
            {
                if e.op.is_mutation() || matches!(e.op, super::vsys::Op::Exec(_))
                {
                    eprintln!("    t{} {}{:?} ok={} {}", e.thread, if e.in_cmd { "cmd: " } else { "" }, e.op, e.ok, e.note);
                }
            }
            for (p, f) in post.iter()
            {
                if !p.ends_with(".rules") { eprintln!("    = {} {:?} exec={} mtime={}", p, String::from_utf8_lossy(&f.data[..f.data.len().min(24)]), f.exec, f.mtime % 100000); }
            }
        }
        let error_text = match &out.result { Some(Err(e)) => Some(format!("{}", e)), _ => None };
        Obs
        {
            inv,
            error_text,
            result: out.result.map(|r| r.map_err(|e| summarize(&e))),
            panics: out.panics,
            deadlock: out.deadlock,
            aborted: out.aborted,
            steps: out.steps,
            trace: out.trace,
            events: out.events,
            leftover_threads: out.leftover_threads,
            log,
            cmds,
            printed,
            pre,
            post,
            reference,
            mutations,
            mutation_kinds,
            sched_used: sch.clone(),
            yields: out.yields,
        }
    }
}

