//! Runs the libFuzzer targets of /verif/fuzz for the thorough tiers of C14, C15, C16.
//! A crash artifact is never reported on libFuzzer's word alone: the caller replays the
//! saved input through the in-process oracle first.

use std::path::PathBuf;
use std::process::{Command, Stdio};

use super::drive::{Ctx, Stats};

pub struct FuzzOutcome
{
    pub ran: bool,
    pub runs: u64,
    pub note: String,
    /// saved inputs of crashes (bytes), to be confirmed in-process
    pub crashes: Vec<Vec<u8>>,
}

pub fn run_target(ctx: &Ctx, target: &str, total_runs: u64, procs: usize, max_len: usize) -> FuzzOutcome
{
    let bin = PathBuf::from(&ctx.verif_dir).join("fuzz/target/x86_64-unknown-linux-gnu/release").join(target);
    if !bin.is_file()
    {
        return FuzzOutcome { ran: false, runs: 0, note: format!("fuzz target {} is not built ({}); libFuzzer part skipped", target, bin.display()), crashes: vec![] };
    }
    let seeds = PathBuf::from(&ctx.verif_dir).join("fuzz/seeds").join(target);
    let per = (total_runs / procs.max(1) as u64).max(1);
    let base = std::env::temp_dir().join(format!("rv-fuzz-{}-{}", std::process::id(), target));
    let _ = std::fs::remove_dir_all(&base);
    let mut children = vec![];
    for i in 0..procs.max(1)
    {
        let corpus = base.join(format!("corpus{}", i));
        let arts = base.join(format!("artifacts{}", i));
        let _ = std::fs::create_dir_all(&corpus);
        let _ = std::fs::create_dir_all(&arts);
        if let Ok(rd) = std::fs::read_dir(&seeds)
        {
            for e in rd.flatten()
            {
                let _ = std::fs::copy(e.path(), corpus.join(e.file_name()));
            }
        }
        let seed = ((ctx.seed.wrapping_add(i as u64 * 7919)) % 4_000_000_000).max(1);
        let child = Command::new(&bin)
            .arg(&corpus)
            .arg(format!("-runs={}", per))
            .arg(format!("-seed={}", seed))
            .arg("-len_control=0")
            .arg(format!("-max_len={}", max_len))
            .arg(format!("-artifact_prefix={}/", arts.display()))
            .arg("-print_final_stats=0")
            .stdin(Stdio::null()).stdout(Stdio::null()).stderr(Stdio::null())
            .spawn();
        match child
        {
            Ok(c) => children.push((c, arts)),
            Err(e) => return FuzzOutcome { ran: false, runs: 0, note: format!("cannot start fuzz target {}: {}", target, e), crashes: vec![] },
        }
    }
    let mut crashes = vec![];
    let mut finished = 0u64;
    for (mut c, arts) in children
    {
        let st = c.wait();
        if let Ok(rd) = std::fs::read_dir(&arts)
        {
            for e in rd.flatten()
            {
                if let Ok(b) = std::fs::read(e.path())
                {
                    crashes.push(b);
                }
            }
        }
        if matches!(st, Ok(s) if s.success())
        {
            finished += per;
        }
    }
    let _ = std::fs::remove_dir_all(&base);
    FuzzOutcome { ran: true, runs: finished, note: format!("{}: {} libFuzzer processes x {} runs, seeded corpus, -len_control=0", target, procs, per), crashes }
}

pub fn record(stats: &mut Stats, o: &FuzzOutcome, target: &str)
{
    stats.count(&format!("libfuzzer_runs_{}", target), o.runs);
    if !o.ran
    {
        stats.class("libfuzzer-skipped");
        eprintln!("note: {}", o.note);
    }
}

pub fn hex(b: &[u8]) -> String
{
    b.iter().map(|x| format!("{:02x}", x)).collect()
}

pub fn unhex(s: &str) -> Vec<u8>
{
    (0..s.len() / 2).filter_map(|i| u8::from_str_radix(&s[2 * i..2 * i + 2], 16).ok()).collect()
}
