//! Generators shared by the history properties: graph specs, operation histories,
//! schedules.  Everything random comes from proptest strategies so that cases shrink and
//! replay; indices are mapped monotonically (`i*len >> 16`) into what exists.

use proptest::prelude::*;
use serde::{Deserialize, Serialize};
use std::collections::{BTreeMap, BTreeSet};

use super::cmd::Instr;
use super::model::{MRule, Model, RenderOpts};
use super::sched::XorShift;

pub fn pick(i: u16, len: usize) -> usize
{
    if len == 0 { 0 } else { ((i as usize) * len) >> 16 }
}

#[derive(Clone, Debug, Serialize, Deserialize, PartialEq)]
pub struct RuleSpec
{
    pub n_targets: u8,
    pub srcs: Vec<u16>,
    /// per target: 0 mix(all), 1 mix(subset), 2 copy, 3 const
    pub kinds: Vec<u8>,
    pub exec: Vec<bool>,
    pub split: bool,
    pub multi_line: bool,
    /// fail when the picked *leaf* source holds pool content c
    pub failon: Option<(u16, u8)>,
    pub const_tag: u8,
    /// with `failon`: the check sits on a script line of its own, the other lines still write the targets
    /// (a rule that fails although every target exists afterwards); only for checks that do not assume
    /// "a failing command writes nothing"
    #[serde(default)]
    pub late_fail: bool,
    /// the rule has an EMPTY command section (the parser accepts it; ruler reports "no command executed" for it when it is
    /// reached, so it always fails)
    #[serde(default)]
    pub empty_cmd: bool,
}

#[derive(Clone, Debug, Serialize, Deserialize, PartialEq)]
pub struct GraphSpec
{
    pub n_leaves: u8,
    pub leaf_contents: Vec<u8>,
    pub rules: Vec<RuleSpec>,
    pub name_seed: u16,
    pub dirs: bool,
    pub two_files: bool,
    pub bundle: bool,
    pub render_seed: u16,
    /// some names start with a dot (next to a file of the same name without it) or contain non-ASCII letters
    #[serde(default)]
    pub odd_names: bool,
}

pub const CONTENT_POOL: [&str; 5] = ["v0", "v1", "v2", "v3", "v4"];

/// Number of distinct user file contents.  Indices 0..5 are the short pool above (also what `failon` lines compare
/// against); 5 is the EMPTY file, 6 is exactly one 256-byte hashing block, 7 and 8 span three blocks and differ only in
/// their last bytes (far beyond the first block), 9 is not valid UTF-8.  Older replay files only use 0..5 and keep their
/// meaning.
pub const N_CONTENTS: u8 = 10;

pub fn content(idx: u8) -> Vec<u8>
{
    match idx % N_CONTENTS
    {
        i @ 0..=4 => CONTENT_POOL[i as usize].as_bytes().to_vec(),
        5 => vec![],
        6 => (0..256usize).map(|i| b'a' + (i % 23) as u8).collect(),
        7 => (0..700usize).map(|i| b'A' + (i % 19) as u8).collect(),
        8 => (0..700usize).map(|i| if i >= 690 { b'z' } else { b'A' + (i % 19) as u8 }).collect(),
        _ => vec![0xff, 0xfe, 0x80, 0x01, b'b', b'i', b'n', 0xc3, 0x28, 0xf0],
    }
}

pub fn rule_spec(max_targets: u8, allow_fail: bool) -> impl Strategy<Value = RuleSpec>
{
    rule_spec_ext(max_targets, allow_fail, false)
}

pub fn rule_spec_ext(max_targets: u8, allow_fail: bool, allow_late_fail: bool) -> impl Strategy<Value = RuleSpec>
{
    (
        prop_oneof![4 => Just(1u8), 3 => Just(2u8), 1 => Just(3u8)].prop_map(move |n| n.min(max_targets)),
        proptest::collection::vec(any::<u16>(), 1..=3),
        proptest::collection::vec(prop_oneof![4 => Just(0u8), 2 => Just(1u8), 3 => Just(2u8), 1 => Just(3u8)], 3),
        proptest::collection::vec(prop_oneof![4 => Just(false), 1 => Just(true)], 3),
        any::<bool>(),
        prop_oneof![3 => Just(false), 1 => Just(true)],
        if allow_fail
        {
            prop_oneof![5 => Just(None), 1 => (any::<u16>(), 0u8..5).prop_map(Some)].boxed()
        }
        else
        {
            Just(None).boxed()
        },
        0u8..3,
        any::<bool>(),
        if allow_fail { prop_oneof![24 => Just(false), 1 => Just(true)].boxed() } else { Just(false).boxed() },
    ).prop_map(move |(n_targets, srcs, kinds, exec, split, multi_line, failon, const_tag, late, empty_cmd)|
        RuleSpec { n_targets, srcs, kinds, exec, split, multi_line, failon, const_tag, late_fail: late && allow_late_fail, empty_cmd })
}

pub fn graph_spec(max_rules: usize, allow_fail: bool) -> impl Strategy<Value = GraphSpec>
{
    graph_spec_ext(max_rules, allow_fail, false)
}

pub fn graph_spec_ext(max_rules: usize, allow_fail: bool, allow_late_fail: bool) -> impl Strategy<Value = GraphSpec>
{
    (
        1u8..=4,
        proptest::collection::vec(0u8..N_CONTENTS, 4),
        proptest::collection::vec(rule_spec_ext(3, allow_fail, allow_late_fail), 1..=max_rules),
        any::<u16>(),
        prop_oneof![3 => Just(false), 1 => Just(true)],
        prop_oneof![3 => Just(false), 1 => Just(true)],
        any::<bool>(),
        any::<u16>(),
        prop_oneof![3 => Just(false), 1 => Just(true)],
    ).prop_map(|(n_leaves, leaf_contents, rules, name_seed, dirs, two_files, bundle, render_seed, odd_names)|
        GraphSpec { n_leaves, leaf_contents, rules, name_seed, dirs, two_files, bundle, render_seed, odd_names })
}

/// Name allocator: a permutation of f00..f95 so alphabetical and dependency order are
/// independent; optionally some names live under pre-created directories.
#[derive(Clone, Debug)]
pub struct Names
{
    pool: Vec<String>,
    next: usize,
}

impl Names
{
    pub fn new(seed: u16, dirs: bool, odd: bool) -> Names
    {
        let mut ids: Vec<usize> = (0..96).collect();
        let mut r = XorShift::new(seed as u64 + 1);
        if seed != 0
        {
            for i in (1..ids.len()).rev()
            {
                let j = r.below((i + 1) as u64) as usize;
                ids.swap(i, j);
            }
        }
        let pool = ids.iter().map(|i|
        {
            // some names are another name plus a suffix (f04 / f04.b): prefix relations between unrelated paths
            let base = if i % 8 == 5 { format!("f{:02}.b", i - 1) }
                // hidden file next to the plain file of the same name (f02 / .f02); a name with multi-byte letters
                else if odd && i % 8 == 3 { format!(".f{:02}", i - 1) }
                else if odd && i % 8 == 7 { format!("f\u{e9}\u{2713}{:02}", i) }
                else { format!("f{:02}", i) };
            if dirs
            {
                match i % 8
                {
                    0 | 4 | 5 => format!("d0/{}", base),
                    1 => format!("d1/sub/{}", base),
                    // a root-level file whose name starts like a directory name followed by a character below '/':
                    // bundled and flat spellings order such siblings differently
                    6 => format!("d0.{}", base),
                    _ => base,
                }
            }
            else
            {
                base
            }
        }).collect();
        Names { pool, next: 0 }
    }

    pub fn fresh(&mut self) -> String
    {
        let n = self.pool[self.next % self.pool.len()].clone();
        let gen = self.next / self.pool.len();
        self.next += 1;
        if gen == 0 { n } else { format!("{}x{}", n, gen) }
    }
}

pub fn build_rule(spec: &RuleSpec, candidates: &[String], leaves: &[String], names: &mut Names, file: usize) -> MRule
{
    let mut sources: Vec<String> = vec![];
    for p in spec.srcs.iter()
    {
        let s = candidates[pick(*p, candidates.len())].clone();
        if !sources.contains(&s)
        {
            sources.push(s);
        }
    }
    let nt = spec.n_targets.max(1) as usize;
    let targets: Vec<String> = (0..nt).map(|_| names.fresh()).collect();
    let mut chain: Vec<Instr> = vec![];
    let mut chains: Vec<Vec<Instr>> = vec![];
    if let Some((p, c)) = spec.failon
    {
        let leaf_srcs: Vec<&String> = sources.iter().filter(|s| leaves.contains(s)).collect();
        if !leaf_srcs.is_empty()
        {
            let s = leaf_srcs[pick(p, leaf_srcs.len())].clone();
            chain.push(Instr::FailOn { src: s, content: CONTENT_POOL[c as usize % 5].to_string() });
            if spec.late_fail
            {
                chains.push(std::mem::take(&mut chain));
            }
        }
    }
    for (k, t) in targets.iter().enumerate()
    {
        let kind = spec.kinds.get(k).cloned().unwrap_or(0);
        let ins = match kind
        {
            0 => Instr::EmitMix { t: t.clone(), tag: format!("T{}", t.replace('/', "_")), srcs: sources.clone() },
            1 => Instr::EmitMix { t: t.clone(), tag: format!("T{}", t.replace('/', "_")), srcs: vec![sources[k % sources.len()].clone()] },
            2 => Instr::EmitCopy { t: t.clone(), src: sources[k % sources.len()].clone() },
            _ => Instr::EmitConst { t: t.clone(), tag: format!("K{}", spec.const_tag) },
        };
        chain.push(ins);
        if spec.exec.get(k).cloned().unwrap_or(false)
        {
            chain.push(Instr::ChmodX { t: t.clone() });
        }
        // a FailOn must stay in front of every emit of its chain ("a failing command writes nothing")
        if spec.multi_line && spec.failon.is_none() && k + 1 < targets.len()
        {
            chains.push(std::mem::take(&mut chain));
        }
    }
    chains.push(chain);
    if spec.empty_cmd
    {
        chains.clear();
    }
    MRule { targets, sources, script: chains, split: spec.split, file, shell: false }
}

pub fn build_model(g: &GraphSpec) -> (Model, Names)
{
    let mut names = Names::new(g.name_seed, g.dirs, g.odd_names);
    let nl = g.n_leaves.max(1) as usize;
    let leaves: Vec<String> = (0..nl).map(|_| names.fresh()).collect();
    let mut files = BTreeMap::new();
    for (i, l) in leaves.iter().enumerate()
    {
        files.insert(l.clone(), content(g.leaf_contents.get(i).cloned().unwrap_or(0)));
    }
    let mut rules: Vec<MRule> = vec![];
    let mut candidates = leaves.clone();
    for (i, rs) in g.rules.iter().enumerate()
    {
        let file = if g.two_files && i % 2 == 1 { 1 } else { 0 };
        let r = build_rule(rs, &candidates, &leaves, &mut names, file);
        candidates.extend(r.targets.iter().cloned());
        rules.push(r);
    }
    let rule_files = if g.two_files { vec!["build.rules".to_string(), "more.rules".to_string()] } else { vec!["build.rules".to_string()] };
    let model = Model
    {
        rules,
        files,
        rule_files,
        render: RenderOpts { bundle: g.bundle, perm_seed: g.render_seed as u64, blank_between: 1 + (g.render_seed as usize % 3), leading_blank: g.render_seed as usize % 2, final_newline: g.render_seed % 5 != 0 },
        dirs: if g.dirs { vec!["d0".to_string(), "d1/sub".to_string()] } else { vec![] },
        missing_dirs: BTreeSet::new(),
    };
    (model, names)
}

#[derive(Clone, Debug, Serialize, Deserialize, PartialEq)]
pub enum Op
{
    Edit { leaf: u16, content: u8 },
    Revert { leaf: u16 },
    Swap { a: u16, b: u16 },
    DeleteLeaf { leaf: u16 },
    Retag { rule: u16 },
    AddSource { rule: u16, src: u16 },
    RemoveSource { rule: u16, k: u16 },
    AddTarget { rule: u16 },
    RemoveTarget { rule: u16, k: u16 },
    AddRule { spec: RuleSpec },
    RemoveRule { rule: u16 },
    /// remove a rule that other rules depend on: its targets become plain source files of those rules
    OrphanRule { rule: u16 },
    Reformat { seed: u16, bundle: bool },
    Build { goal: Option<u16> },
    Clean { goal: Option<u16> },
    Tamper { t: u16, content: u8 },
    /// put an older file (content from the pool, modification time in the past) at a target path, like `mv backup target`
    TamperOld { t: u16, content: u8 },
    DeleteTarget { t: u16 },
    DeleteCacheEntry { k: u16 },
    DeleteRulerDir,
    DeleteHistory,
    DeleteCache,
    DeleteTable,
    DeleteHistoryFile { k: u16 },
    /// the user removes a whole workspace directory (with everything in it) / creates it again
    RemoveDir { d: u16 },
    MakeDir { d: u16 },
}

impl Op
{
    pub fn name(&self) -> &'static str
    {
        match self
        {
            Op::Edit { .. } => "edit",
            Op::Revert { .. } => "revert",
            Op::Swap { .. } => "swap",
            Op::DeleteLeaf { .. } => "delete-leaf",
            Op::Retag { .. } => "retag",
            Op::AddSource { .. } => "add-source",
            Op::RemoveSource { .. } => "remove-source",
            Op::AddTarget { .. } => "add-target",
            Op::RemoveTarget { .. } => "remove-target",
            Op::AddRule { .. } => "add-rule",
            Op::RemoveRule { .. } => "remove-rule",
            Op::OrphanRule { .. } => "orphan-rule",
            Op::Reformat { .. } => "reformat",
            Op::Build { goal: None } => "build",
            Op::Build { goal: Some(_) } => "build-goal",
            Op::Clean { goal: None } => "clean",
            Op::Clean { goal: Some(_) } => "clean-goal",
            Op::Tamper { .. } => "tamper",
            Op::TamperOld { .. } => "tamper-old-mtime",
            Op::DeleteTarget { .. } => "delete-target",
            Op::DeleteCacheEntry { .. } => "delete-cache-entry",
            Op::DeleteRulerDir => "delete-ruler-dir",
            Op::DeleteHistory => "delete-history",
            Op::DeleteCache => "delete-cache",
            Op::DeleteTable => "delete-table",
            Op::DeleteHistoryFile { .. } => "delete-history-file",
            Op::RemoveDir { .. } => "remove-dir",
            Op::MakeDir { .. } => "make-dir",
        }
    }

    pub fn is_invocation(&self) -> bool
    {
        matches!(self, Op::Build { .. } | Op::Clean { .. })
    }
}

#[derive(Clone, Copy, Debug)]
pub struct OpMix
{
    pub rule_edits: bool,
    pub ruler_dir_damage: bool,
    pub cleans: bool,
    pub delete_leaf: bool,
    pub swaps: u32,
    pub dir_ops: u32,
    /// removing a rule that others depend on (its targets become plain, possibly missing, sources)
    pub orphan: bool,
}

impl OpMix
{
    pub fn full() -> OpMix
    {
        OpMix { rule_edits: true, ruler_dir_damage: true, cleans: true, delete_leaf: false, swaps: 1, dir_ops: 1, orphan: true }
    }
}

pub fn op(mix: OpMix) -> impl Strategy<Value = Op>
{
    let goal = prop_oneof![2 => Just(None), 1 => any::<u16>().prop_map(Some)];
    let goal2 = prop_oneof![2 => Just(None), 1 => any::<u16>().prop_map(Some)];
    let re = if mix.rule_edits { 1u32 } else { 0 };
    let dm = if mix.ruler_dir_damage { 1u32 } else { 0 };
    let cl = if mix.cleans { 1u32 } else { 0 };
    let dl = if mix.delete_leaf { 1u32 } else { 0 };
    let all: Vec<(u32, BoxedStrategy<Op>)> = vec![
        (10, (any::<u16>(), 0u8..N_CONTENTS).prop_map(|(leaf, content)| Op::Edit { leaf, content }).boxed()),
        (6, any::<u16>().prop_map(|leaf| Op::Revert { leaf }).boxed()),
        (mix.swaps, (any::<u16>(), any::<u16>()).prop_map(|(a, b)| Op::Swap { a, b }).boxed()),
        (dl, any::<u16>().prop_map(|leaf| Op::DeleteLeaf { leaf }).boxed()),
        (2 * re, any::<u16>().prop_map(|rule| Op::Retag { rule }).boxed()),
        (re, (any::<u16>(), any::<u16>()).prop_map(|(rule, src)| Op::AddSource { rule, src }).boxed()),
        (re, (any::<u16>(), any::<u16>()).prop_map(|(rule, k)| Op::RemoveSource { rule, k }).boxed()),
        (re, any::<u16>().prop_map(|rule| Op::AddTarget { rule }).boxed()),
        (re, (any::<u16>(), any::<u16>()).prop_map(|(rule, k)| Op::RemoveTarget { rule, k }).boxed()),
        (re, rule_spec(3, false).prop_map(|spec| Op::AddRule { spec }).boxed()),
        (re, any::<u16>().prop_map(|rule| Op::RemoveRule { rule }).boxed()),
        (if mix.orphan { re } else { 0 }, any::<u16>().prop_map(|rule| Op::OrphanRule { rule }).boxed()),
        (re, (any::<u16>(), any::<bool>()).prop_map(|(seed, bundle)| Op::Reformat { seed, bundle }).boxed()),
        (16, goal.prop_map(|goal| Op::Build { goal }).boxed()),
        (4 * cl, goal2.prop_map(|goal| Op::Clean { goal }).boxed()),
        (4, (any::<u16>(), 0u8..N_CONTENTS).prop_map(|(t, content)| Op::Tamper { t, content }).boxed()),
        (2, (any::<u16>(), 0u8..N_CONTENTS).prop_map(|(t, content)| Op::TamperOld { t, content }).boxed()),
        (4, any::<u16>().prop_map(|t| Op::DeleteTarget { t }).boxed()),
        (3 * dm, any::<u16>().prop_map(|k| Op::DeleteCacheEntry { k }).boxed()),
        (dm, Just(Op::DeleteRulerDir).boxed()),
        (dm, Just(Op::DeleteHistory).boxed()),
        (dm, Just(Op::DeleteCache).boxed()),
        (dm, Just(Op::DeleteTable).boxed()),
        (dm, any::<u16>().prop_map(|k| Op::DeleteHistoryFile { k }).boxed()),
        (mix.dir_ops, any::<u16>().prop_map(|d| Op::RemoveDir { d }).boxed()),
        (2 * mix.dir_ops, any::<u16>().prop_map(|d| Op::MakeDir { d }).boxed()),
    ];
    proptest::strategy::Union::new_weighted(all.into_iter().filter(|(w, _)| *w > 0).collect::<Vec<_>>())
}

pub fn ops(mix: OpMix, max: usize) -> impl Strategy<Value = Vec<Op>>
{
    proptest::collection::vec(op(mix), 0..=max)
}

/// A schedule as a value.
#[derive(Clone, Debug, Serialize, Deserialize, PartialEq)]
pub enum Sched
{
    Serial { highest: bool },
    /// preemptions as (fraction of the step range, choice)
    Preempt { highest: bool, points: Vec<(u16, u16)> },
    /// exact preemption steps (used by the single-preemption enumeration and by replays)
    PreemptAt { highest: bool, points: Vec<(u64, u16)> },
    Random { seed: u64, switch_num: u8 },
    Pct { seed: u64, d: u8 },
    Trace { trace: Vec<u16> },
    /// preemptions addressed by (thread, operation tag, occurrence, choice)
    OnTag { points: Vec<(usize, String, u32, u16)> },
}

pub fn sched() -> impl Strategy<Value = Sched>
{
    prop_oneof![
        1 => any::<bool>().prop_map(|highest| Sched::Serial { highest }),
        4 => (any::<bool>(), proptest::collection::vec((any::<u16>(), any::<u16>()), 1..=3)).prop_map(|(highest, points)| Sched::Preempt { highest, points }),
        4 => (any::<u64>(), 1u8..=12).prop_map(|(seed, switch_num)| Sched::Random { seed, switch_num }),
        3 => (any::<u64>(), 1u8..=3).prop_map(|(seed, d)| Sched::Pct { seed, d }),
    ]
}

pub fn set_of<T: Ord + Clone>(v: &[T]) -> BTreeSet<T>
{
    v.iter().cloned().collect()
}
