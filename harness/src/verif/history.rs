//! Shared interpreter loop for history cases with pluggable monitors (oracles).

use serde::{Deserialize, Serialize};
use serde_json::{json, Value};

use super::drive::Stats;
use super::engine::{Applied, Inv, Obs, World};
use super::gen::{GraphSpec, Op, Sched};
use super::vsys::Clock;

#[derive(Clone, Debug, Serialize, Deserialize, PartialEq)]
pub struct HistoryCase
{
    pub graph: GraphSpec,
    pub ops: Vec<Op>,
    /// 0 = serial schedule for every invocation; otherwise seeds a random walk per invocation
    pub sched_seed: u16,
}

pub trait Monitor
{
    fn before_invocation(&mut self, _w: &World, _inv: &Inv) {}
    fn after_invocation(&mut self, w: &World, obs: &Obs, stats: &mut Stats) -> Result<(), String>;
    fn after_user_action(&mut self, _w: &World, _op: &Op, _applied: &Applied) {}
    fn finish(&mut self, _w: &World, _stats: &mut Stats) -> Result<(), String> { Ok(()) }
}

pub fn sched_for(case_seed: u16, invocation: u64) -> Sched
{
    if case_seed == 0
    {
        Sched::Serial { highest: false }
    }
    else if case_seed % 7 == 1
    {
        Sched::Serial { highest: true }
    }
    else
    {
        Sched::Random { seed: (case_seed as u64) * 1000 + invocation, switch_num: 1 + (case_seed % 8) as u8 }
    }
}

/// Every invocation must come back: a panic, deadlock or internal channel error is a
/// harness-level failure for all history properties (C05 owns it, the others report it
/// as "invocation did not return" so that nothing is judged on a broken run).
pub fn describe_abnormal(obs: &Obs) -> Option<String>
{
    if !obs.panics.is_empty()
    {
        return Some(format!("panic: {}", obs.panics.join(" | ")));
    }
    if let Some(d) = &obs.deadlock
    {
        return Some(d.clone());
    }
    if obs.result.is_none()
    {
        return Some(format!("invocation did not return: {:?}", obs.aborted));
    }
    None
}

pub fn run_history(case: &HistoryCase, clock: Clock, mon: &mut dyn Monitor, stats: &mut Stats) -> Result<World, String>
{
    let mut w = World::new(&case.graph, clock);
    for op in case.ops.iter()
    {
        stats.class(&format!("op:{}", op.name()));
        match w.apply(op)
        {
            Applied::Invocation(inv) =>
            {
                mon.before_invocation(&w, &inv);
                let s = sched_for(case.sched_seed, w.invocations);
                let obs = w.invoke(inv, &s, None);
                mon.after_invocation(&w, &obs, stats)?;
            }
            a =>
            {
                if a == Applied::Noop
                {
                    stats.class("op-noop");
                }
                mon.after_user_action(&w, op, &a);
            }
        }
    }
    mon.finish(&w, stats)?;
    Ok(w)
}

pub fn describe_case(case: &HistoryCase) -> Value
{
    let w = World::new(&case.graph, Clock::Distinct);
    let rules: Vec<Value> = w.model.rules.iter().map(|r| json!({
        "targets": r.targets, "sources": r.sources, "command": r.command_lines(), "file": w.model.rule_files[r.file],
    })).collect();
    json!({
        "rules": rules,
        "leaves": w.model.files.iter().map(|(k, v)| (k.clone(), String::from_utf8_lossy(v).to_string())).collect::<std::collections::BTreeMap<_, _>>(),
        "ops": case.ops.iter().map(|o| format!("{:?}", o)).collect::<Vec<_>>(),
        "sched_seed": case.sched_seed,
    })
}
