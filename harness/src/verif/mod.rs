pub mod sched;

#[no_mangle]
pub extern "C" fn main(_argc: i32, _argv: *const *const u8) -> i32
{
    let args: Vec<String> = std::env::args().collect();
    if args.len() >= 2 && args[1] == "verif"
    {
        println!("verif mode");
        return 0;
    }
    crate::main();
    use std::io::Write;
    let _ = std::io::stdout().flush();
    0
}
