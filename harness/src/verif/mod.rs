pub mod sha256;
pub mod b62;
pub mod sched;
pub mod cmd;
pub mod vsys;
pub mod model;
pub mod gen;
pub mod engine;
pub mod history;
pub mod selftest;
pub mod fuzzrun;
pub mod realfs;
pub mod drive;
pub mod oracle;
pub mod props;

use std::time::Instant;
use drive::{Ctx, Report, Tier};

fn usage() -> i32
{
    eprintln!("usage: rv verif <ID> [--tier quick|thorough] [--replay <file>] [--workers N]");
    2
}

type RunFn = fn(&Ctx) -> Report;
type ReplayFn = fn(&Ctx, &serde_json::Value) -> Result<(), String>;

fn lookup(id: &str) -> Option<(RunFn, ReplayFn)>
{
    match id
    {
        "C01" => Some((props::c01::run, props::c01::replay)),
        "C02" => Some((props::c02::run, props::c02::replay)),
        "C03" => Some((props::realp::run_c03, props::realp::replay_c03)),
        "C04" => Some((props::realp::run_c04, props::realp::replay_c04)),
        "C05" => Some((props::realp::run_c05, props::realp::replay_c05)),
        "C06" => Some((props::schedp::run_c06, props::schedp::replay_c06)),
        "C07" => Some((props::audits::run_c07, props::audits::replay_c07)),
        "C08" => Some((props::audits::run_c08, props::audits::replay_c08)),
        "C09" => Some((props::realp::run_c09, props::realp::replay_c09)),
        "C17" => Some((props::c17::run, props::c17::replay)),
        "C18" => Some((props::realp::run_c18, props::realp::replay_c18)),
        "C19" => Some((props::c19::run, props::c19::replay)),
        "C20" => Some((props::realp::run_c20, props::realp::replay_c20)),
        "C10" => Some((props::c10::run, props::c10::replay)),
        "C11" => Some((props::c11::run, props::c11::replay)),
        "C12" => Some((props::c12::run, props::c12::replay)),
        "C13" => Some((props::c13::run, props::c13::replay)),
        "C14" => Some((props::c14::run, props::c14::replay)),
        "C15" => Some((props::c15::run, props::c15::replay)),
        "C16" => Some((props::c16::run, props::c16::replay)),
        _ => None,
    }
}

fn bench() -> i32
{
    use proptest::strategy::{Strategy, ValueTree};
    use proptest::test_runner::TestRunner;
    let mut runner = TestRunner::deterministic();
    let strat = props::schedp::strategy(props::schedp::Which::C05, 7, 0);
    let mut total_runs = 0u64;
    let t0 = Instant::now();
    let mut t_prepare = 0f64;
    let mut t_fork = 0f64;
    let mut t_invoke = 0f64;
    for _ in 0..40
    {
        let c = strat.new_tree(&mut runner).unwrap().current();
        let a = Instant::now();
        let p = match props::schedp::prepare(&c) { Ok(p) => p, Err(_) => continue };
        t_prepare += a.elapsed().as_secs_f64();
        for k in 0..50u64
        {
            let a = Instant::now();
            let mut w = p.world.fork();
            t_fork += a.elapsed().as_secs_f64();
            let a = Instant::now();
            let s = if k % 2 == 0 { gen::Sched::Serial { highest: false } } else { gen::Sched::Random { seed: k, switch_num: 8 } };
            let obs = w.invoke(p.inv.clone(), &s, None);
            t_invoke += a.elapsed().as_secs_f64();
            total_runs += 1;
            std::hint::black_box(obs.steps);
        }
    }
    println!("runs {} total {:.3}s prepare {:.3}s fork {:.3}s invoke {:.3}s => {:.3} ms/run", total_runs, t0.elapsed().as_secs_f64(), t_prepare, t_fork, t_invoke, 1000.0 * t_invoke / total_runs as f64);
    0
}

fn verif_main(args: &[String]) -> i32
{
    if args.is_empty()
    {
        return usage();
    }
    if args[0] == "bench"
    {
        return bench();
    }
    if args[0] == "selftest"
    {
        return selftest::run();
    }
    let id = args[0].clone();
    let mut tier = match std::env::var("VERIF_TIER").ok().as_deref()
    {
        Some("thorough") => Tier::Thorough,
        _ => Tier::Quick,
    };
    let mut replay: Option<String> = None;
    let mut workers = std::thread::available_parallelism().map(|n| n.get()).unwrap_or(4).min(16);
    let mut i = 1;
    while i < args.len()
    {
        match args[i].as_str()
        {
            "--tier" if i + 1 < args.len() =>
            {
                tier = if args[i + 1] == "thorough" { Tier::Thorough } else { Tier::Quick };
                i += 2;
            }
            "--replay" if i + 1 < args.len() =>
            {
                replay = Some(args[i + 1].clone());
                i += 2;
            }
            "--workers" if i + 1 < args.len() =>
            {
                workers = args[i + 1].parse().unwrap_or(workers);
                i += 2;
            }
            _ => return usage(),
        }
    }
    let seed: u64 = std::env::var("VERIF_SEED").ok().and_then(|s| s.trim().parse::<i128>().ok()).map(|v| v as u64).unwrap_or(20260926);
    let verif_dir = std::env::var("VERIF_DIR").unwrap_or_else(|_| "/verif".to_string());
    let ctx = Ctx
    {
        id: id.clone(),
        tier,
        seed,
        workers,
        known: drive::load_known(&verif_dir),
        verif_dir,
        start: Instant::now(),
        strict: replay.is_some(),
    };
    sched::install_panic_hook();
    let (run, rep) = match lookup(&id)
    {
        Some(x) => x,
        None =>
        {
            eprintln!("unknown property id {}", id);
            return 2;
        }
    };
    if let Some(path) = replay
    {
        let text = match std::fs::read_to_string(&path)
        {
            Ok(t) => t,
            Err(e) => { eprintln!("cannot read {}: {}", path, e); return 2; }
        };
        let v: serde_json::Value = match serde_json::from_str(&text)
        {
            Ok(v) => v,
            Err(e) => { eprintln!("cannot parse {}: {}", path, e); return 2; }
        };
        let case = v.get("case").cloned().unwrap_or(v.clone());
        let outcome = match sched::catch_quiet(|| rep(&ctx, &case))
        {
            Ok(r) => r,
            Err(m) => Err(format!("panic in the code under test: {}", m)),
        };
        return match outcome
        {
            Ok(()) => { println!("replay {}: property {} held", path, id); 0 }
            Err(m) =>
            {
                println!("VIOLATION property={} replay={}", id, path);
                eprintln!("  reason: {}", m);
                1
            }
        };
    }
    let report = run(&ctx);
    drive::finish(&ctx, report)
}

#[no_mangle]
pub extern "C" fn main(_argc: i32, _argv: *const *const u8) -> i32
{
    let args: Vec<String> = std::env::args().collect();
    if args.len() >= 2 && args[1] == "verif"
    {
        let code = verif_main(&args[2..]);
        use std::io::Write;
        let _ = std::io::stdout().flush();
        return code;
    }
    crate::main();
    use std::io::Write;
    let _ = std::io::stdout().flush();
    0
}
