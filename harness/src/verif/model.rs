//! Reference model of a workspace: rules as data, user files, and the "from scratch"
//! evaluation.  Never consults ruler's history, cache, file-state table or hashes.

use std::collections::{BTreeMap, BTreeSet};

use super::cmd::{self, CmdFs, Instr};

#[derive(Clone, Debug, PartialEq, Eq, Hash)]
pub struct MRule
{
    pub targets: Vec<String>,
    pub sources: Vec<String>,
    /// script lines; each a chain of instructions joined by `&&`
    pub script: Vec<Vec<Instr>>,
    /// render each `&&` chain over several rule-file lines (joined by ruler with a space)
    pub split: bool,
    /// index of the rules file this rule lives in
    pub file: usize,
    /// render the command as /bin/sh text (real-file-system runs) instead of the harness language
    pub shell: bool,
}

pub fn shell_instr(i: &Instr) -> String
{
    match i
    {
        Instr::EmitCopy { t, src } => format!("cat {} > {}", src, t),
        Instr::EmitCopyP { t, src } => format!("cp -p {} {}", src, t),
        Instr::EmitLink { t, src } => format!("test -e {} && ln -sf \"$PWD/{}\" {}", src, src, t),
        Instr::EmitConst { t, tag } => format!("printf '%s' '{}' > {}", tag, t),
        Instr::EmitMix { t, tag, srcs } =>
        {
            // h<k>=$(sha256sum < src) fails the chain when src is missing, like the interpreter does
            let mut pre = String::new();
            let mut hs = vec![];
            for (k, s) in srcs.iter().enumerate()
            {
                pre.push_str(&format!("h{}=$(sha256sum < {}) && ", k, s));
                hs.push(format!("${{h{}%\"${{h{}#??????}}\"}}", k, k));
            }
            format!("{}printf '%s' \"{}[{}]\" > {}", pre, tag, hs.join(","), t)
        }
        Instr::ChmodX { t } => format!("chmod +x {}", t),
        Instr::Fail { .. } => "false".to_string(),
        Instr::FailIf { flag } => format!("test ! -e {}", flag),
        Instr::FailOn { src, content } => format!("c=$(cat {}) && test \"$c\" != '{}'", src, content),
        Instr::Nop { .. } => "true".to_string(),
        Instr::Noise { err, out } => format!("{{ head -c {} /dev/zero | tr '\\0' e >&2; head -c {} /dev/zero | tr '\\0' o; }}", err, out),
        Instr::DieIf { flag, how } => format!("{{ test ! -e {} || {}; }}", flag, match how { 0 => "exit 3", 1 => "kill -9 $$", 2 => "kill -15 $$", _ => "kill -1 $$" }),
    }
}

impl MRule
{
    /// The command section exactly as written into the rules file.
    pub fn command_lines(&self) -> Vec<String>
    {
        let mut out = vec![];
        if self.shell
        {
            for (i, chain) in self.script.iter().enumerate()
            {
                if i > 0
                {
                    out.push(";".to_string());
                }
                out.push(chain.iter().map(shell_instr).collect::<Vec<_>>().join(" && "));
            }
            return out;
        }
        for (i, chain) in self.script.iter().enumerate()
        {
            if i > 0
            {
                out.push(";".to_string());
            }
            if self.split
            {
                for (j, ins) in chain.iter().enumerate()
                {
                    if j > 0
                    {
                        out.push("&&".to_string());
                    }
                    out.push(ins.render());
                }
            }
            else
            {
                out.push(chain.iter().map(|i| i.render()).collect::<Vec<_>>().join(" && "));
            }
        }
        out
    }

    /// What ruler hands to `execute_command` (mirror of `to_command_script`, written from
    /// its documentation: lines joined by a space, `;` lines separate script lines).
    pub fn script_lines(&self) -> Vec<String>
    {
        self.script.iter().map(|chain| chain.iter().map(|i| i.render()).collect::<Vec<_>>().join(" && ")).collect()
    }

    pub fn script_key(&self) -> String
    {
        self.script_lines().join("\n")
    }

    /// Canonical identity as the property states it: target set, source set, command lines.
    pub fn canon(&self) -> (Vec<String>, Vec<String>, Vec<String>)
    {
        let mut t = self.targets.clone();
        t.sort();
        t.dedup();
        let mut s = self.sources.clone();
        s.sort();
        s.dedup();
        (t, s, self.command_lines())
    }

    pub fn sorted_targets(&self) -> Vec<String>
    {
        let mut t = self.targets.clone();
        t.sort();
        t.dedup();
        t
    }

    pub fn sorted_sources(&self) -> Vec<String>
    {
        let mut t = self.sources.clone();
        t.sort();
        t.dedup();
        t
    }
}

#[derive(Clone, Debug, PartialEq, Eq)]
pub struct RenderOpts
{
    pub bundle: bool,
    pub perm_seed: u64,
    pub blank_between: usize,
    pub leading_blank: usize,
    pub final_newline: bool,
}

impl Default for RenderOpts
{
    fn default() -> Self
    {
        RenderOpts { bundle: false, perm_seed: 0, blank_between: 1, leading_blank: 0, final_newline: true }
    }
}

fn permute<T: Clone>(v: &[T], seed: u64) -> Vec<T>
{
    let mut out: Vec<T> = v.to_vec();
    if seed == 0 || out.len() < 2
    {
        return out;
    }
    let mut r = super::sched::XorShift::new(seed);
    for i in (1..out.len()).rev()
    {
        let j = r.below((i + 1) as u64) as usize;
        out.swap(i, j);
    }
    out
}

/// Render a path list as bundle lines (tab-indented directory groups).
pub fn render_bundled(paths: &[String], seed: u64) -> Vec<String>
{
    #[derive(Default)]
    struct T
    {
        kids: BTreeMap<String, T>,
        leaf: bool,
    }
    let mut root = T::default();
    for p in paths
    {
        let mut cur = &mut root;
        let parts: Vec<&str> = p.split('/').collect();
        for (i, c) in parts.iter().enumerate()
        {
            cur = cur.kids.entry(c.to_string()).or_default();
            if i + 1 == parts.len()
            {
                cur.leaf = true;
            }
        }
    }
    fn emit(t: &T, depth: usize, seed: u64, out: &mut Vec<String>)
    {
        let names: Vec<&String> = t.kids.keys().collect();
        let order = permute(&names, seed.wrapping_add(depth as u64 * 7919));
        for name in order
        {
            let k = &t.kids[name];
            out.push(format!("{}{}", "\t".repeat(depth), name));
            if !k.kids.is_empty()
            {
                emit(k, depth + 1, seed, out);
            }
        }
    }
    let mut out = vec![];
    emit(&root, 0, seed, &mut out);
    out
}

pub fn render_rule(r: &MRule, o: &RenderOpts, salt: u64) -> String
{
    let seed = if o.perm_seed == 0 { 0 } else { o.perm_seed.wrapping_add(salt) };
    let bundlable = |ps: &[String]| -> bool
    {
        // a name that is both a file and a directory prefix cannot be bundled
        let set: BTreeSet<&String> = ps.iter().collect();
        !ps.iter().any(|p| set.iter().any(|q| q.starts_with(&format!("{}/", p))))
    };
    let mut s = String::new();
    let tl = if o.bundle && bundlable(&r.targets) { render_bundled(&r.targets, seed) } else { permute(&r.targets, seed) };
    for t in tl
    {
        s.push_str(&t);
        s.push('\n');
    }
    s.push_str(":\n");
    let sl = if o.bundle && bundlable(&r.sources) { render_bundled(&r.sources, seed.wrapping_add(1)) } else { permute(&r.sources, seed.wrapping_add(1)) };
    for t in sl
    {
        s.push_str(&t);
        s.push('\n');
    }
    s.push_str(":\n");
    for c in r.command_lines()
    {
        s.push_str(&c);
        s.push('\n');
    }
    s.push_str(":\n");
    s
}

#[derive(Clone, Debug, PartialEq)]
pub enum FailKind
{
    Errored,
    NotGenerated(Vec<String>),
    /// the rule has no command lines at all
    NoCommand,
}

#[derive(Clone, Debug, PartialEq)]
pub enum ROut
{
    OutOfScope,
    Ok,
    Failed(FailKind),
    Cancelled,
}

#[derive(Clone, Debug)]
pub struct RefEval
{
    pub in_scope: Vec<bool>,
    /// a dependency order of the in-scope rules (harness's own)
    pub order: Vec<usize>,
    pub outcome: Vec<ROut>,
    /// missing leaf files that some in-scope rule needs
    pub missing: Vec<String>,
    /// expected content and exec bit of every target of every rule whose outcome is Ok
    pub files: BTreeMap<String, (Vec<u8>, bool)>,
    /// leaves (sources that are no rule's target) of the in-scope rules
    pub leaves: Vec<String>,
}

impl RefEval
{
    pub fn all_ok(&self) -> bool
    {
        self.missing.is_empty() && self.outcome.iter().all(|o| matches!(o, ROut::Ok | ROut::OutOfScope))
    }
}

#[derive(Clone, Debug)]
pub struct Model
{
    pub rules: Vec<MRule>,
    /// user-controlled files: leaves, flag files, undeclared inputs, bystanders
    pub files: BTreeMap<String, Vec<u8>>,
    pub rule_files: Vec<String>,
    pub render: RenderOpts,
    pub dirs: Vec<String>,
    /// workspace directories the user has removed: nothing can be written below them
    pub missing_dirs: BTreeSet<String>,
}

struct MapFs<'a>
{
    m: &'a mut BTreeMap<String, (Vec<u8>, bool)>,
    missing_dirs: &'a BTreeSet<String>,
}

pub fn under_missing_dir(missing: &BTreeSet<String>, path: &str) -> bool
{
    missing.iter().any(|d| path.starts_with(&format!("{}/", d)))
}

impl<'a> CmdFs for MapFs<'a>
{
    fn read(&mut self, path: &str) -> Option<Vec<u8>>
    {
        self.m.get(path).map(|x| x.0.clone())
    }
    fn write(&mut self, path: &str, data: &[u8]) -> bool
    {
        if under_missing_dir(self.missing_dirs, path)
        {
            return false;
        }
        let exec = self.m.get(path).map(|x| x.1).unwrap_or(false);
        self.m.insert(path.to_string(), (data.to_vec(), exec));
        true
    }
    fn chmodx(&mut self, path: &str) -> bool
    {
        match self.m.get_mut(path)
        {
            Some(x) => { x.1 = true; true }
            None => false,
        }
    }
    fn exists(&mut self, path: &str) -> bool
    {
        self.m.contains_key(path)
    }
}

impl Model
{
    pub fn producer_of(&self, path: &str) -> Option<usize>
    {
        self.rules.iter().position(|r| r.targets.iter().any(|t| t == path))
    }

    pub fn all_targets(&self) -> Vec<String>
    {
        let mut v: Vec<String> = self.rules.iter().flat_map(|r| r.targets.iter().cloned()).collect();
        v.sort();
        v.dedup();
        v
    }

    pub fn dependents_of_rule(&self, ri: usize) -> Vec<usize>
    {
        let ts = &self.rules[ri].targets;
        self.rules.iter().enumerate().filter(|(j, r)| *j != ri && r.sources.iter().any(|s| ts.contains(s))).map(|(j, _)| j).collect()
    }

    /// rules in scope for a goal: the goal's rule and its ancestors (own closure)
    pub fn scope(&self, goal: Option<&str>) -> Vec<bool>
    {
        let n = self.rules.len();
        match goal
        {
            None => vec![true; n],
            Some(g) =>
            {
                let mut inn = vec![false; n];
                let mut stack = vec![];
                if let Some(r) = self.producer_of(g)
                {
                    stack.push(r);
                }
                while let Some(r) = stack.pop()
                {
                    if inn[r]
                    {
                        continue;
                    }
                    inn[r] = true;
                    for s in self.rules[r].sources.iter()
                    {
                        if let Some(p) = self.producer_of(s)
                        {
                            stack.push(p);
                        }
                    }
                }
                inn
            }
        }
    }

    /// Kahn order over in-scope rules; None when a cycle is present.
    pub fn topo(&self, in_scope: &[bool]) -> Option<Vec<usize>>
    {
        let n = self.rules.len();
        let mut indeg = vec![0usize; n];
        let mut deps: Vec<Vec<usize>> = vec![vec![]; n];
        for i in 0..n
        {
            if !in_scope[i]
            {
                continue;
            }
            let mut ps: Vec<usize> = self.rules[i].sources.iter().filter_map(|s| self.producer_of(s)).collect();
            ps.sort();
            ps.dedup();
            for p in ps
            {
                if p == i
                {
                    return None;
                }
                indeg[i] += 1;
                deps[p].push(i);
            }
        }
        let mut ready: Vec<usize> = (0..n).filter(|i| in_scope[*i] && indeg[*i] == 0).collect();
        let mut order = vec![];
        while let Some(r) = ready.pop()
        {
            order.push(r);
            for d in deps[r].clone()
            {
                indeg[d] -= 1;
                if indeg[d] == 0
                {
                    ready.push(d);
                }
            }
        }
        if order.len() == in_scope.iter().filter(|b| **b).count() { Some(order) } else { None }
    }

    /// From-scratch evaluation on the current user files.
    pub fn eval(&self, goal: Option<&str>) -> RefEval
    {
        let n = self.rules.len();
        let in_scope = self.scope(goal);
        let order = self.topo(&in_scope).expect("model graph must be acyclic");
        let mut outcome = vec![ROut::OutOfScope; n];
        let mut missing = BTreeSet::new();
        let mut leaves = BTreeSet::new();
        let mut scratch: BTreeMap<String, (Vec<u8>, bool)> = self.files.iter().map(|(k, v)| (k.clone(), (v.clone(), false))).collect();
        // stale files at target paths do not exist in a from-scratch run
        for t in self.all_targets()
        {
            scratch.remove(&t);
        }
        let mut files = BTreeMap::new();
        for &r in order.iter()
        {
            let rule = &self.rules[r];
            let mut cancelled = false;
            for s in rule.sources.iter()
            {
                match self.producer_of(s)
                {
                    Some(p) =>
                    {
                        if outcome[p] != ROut::Ok
                        {
                            cancelled = true;
                        }
                    }
                    None =>
                    {
                        leaves.insert(s.clone());
                        if !self.files.contains_key(s)
                        {
                            missing.insert(s.clone());
                            cancelled = true;
                        }
                    }
                }
            }
            if cancelled
            {
                outcome[r] = ROut::Cancelled;
                continue;
            }
            if rule.script.is_empty()
            {
                outcome[r] = ROut::Failed(FailKind::NoCommand);
                continue;
            }
            let mut work = scratch.clone();
            let mut ok = true;
            {
                let mut fs = MapFs { m: &mut work, missing_dirs: &self.missing_dirs };
                for line in rule.script_lines()
                {
                    let (code, _e) = cmd::run_line(&mut fs, &line);
                    if code != 0
                    {
                        ok = false;
                    }
                }
            }
            if !ok
            {
                outcome[r] = ROut::Failed(FailKind::Errored);
                continue;
            }
            let ungenerated: Vec<String> = rule.sorted_targets().into_iter().filter(|t| !work.contains_key(t)).collect();
            if !ungenerated.is_empty()
            {
                outcome[r] = ROut::Failed(FailKind::NotGenerated(ungenerated));
                continue;
            }
            outcome[r] = ROut::Ok;
            for t in rule.targets.iter()
            {
                files.insert(t.clone(), work[t].clone());
            }
            scratch = work;
        }
        RefEval { in_scope, order, outcome, missing: missing.into_iter().collect(), files, leaves: leaves.into_iter().collect() }
    }

    pub fn render_file(&self, fi: usize) -> String
    {
        let o = &self.render;
        let mut s = String::new();
        for _ in 0..o.leading_blank
        {
            s.push('\n');
        }
        let idx: Vec<usize> = (0..self.rules.len()).filter(|i| self.rules[*i].file == fi).collect();
        let idx = permute(&idx, if o.perm_seed == 0 { 0 } else { o.perm_seed.wrapping_mul(31).wrapping_add(fi as u64) });
        for (k, i) in idx.iter().enumerate()
        {
            if k > 0
            {
                for _ in 0..o.blank_between
                {
                    s.push('\n');
                }
            }
            s.push_str(&render_rule(&self.rules[*i], o, *i as u64 * 101));
        }
        if !o.final_newline && s.ends_with('\n')
        {
            s.pop();
        }
        s
    }
}
