pub mod refsort;
pub mod refparse;
