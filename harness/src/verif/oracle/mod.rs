pub mod refsort;
