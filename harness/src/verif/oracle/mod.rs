pub mod refsort;
pub mod refparse;
pub mod parse_check;
