//! Comparison of ruler's parser with the reference parser (shared by the C14 check and the libFuzzer target).

use std::collections::BTreeSet;

use crate::bundle;
use crate::rule::{self, ParseError, Rule};
use super::refparse::{self, BundleErr, RefErr, RefOut, RefRule};

fn map_bundle_err(e: &bundle::ParseError) -> BundleErr
{
    match e
    {
        bundle::ParseError::Empty => BundleErr::Empty,
        bundle::ParseError::ContainsEmptyLines(v) => BundleErr::EmptyLines(v.clone()),
        bundle::ParseError::Contradiction(a, b) => BundleErr::Contradiction(*a, *b),
        bundle::ParseError::WrongIndent(i) => BundleErr::WrongIndent(*i),
    }
}

fn map_err(e: &ParseError) -> (String, RefErr)
{
    match e
    {
        ParseError::UnexpectedEmptyLine(f, n) => (f.clone(), RefErr::EmptyLine(*n)),
        ParseError::UnexpectedExtraColon(f, n) => (f.clone(), RefErr::ExtraColon(*n)),
        ParseError::UnexpectedEndOfFileMidTargets(f, n) => (f.clone(), RefErr::EofTargets(*n)),
        ParseError::UnexpectedEndOfFileMidSources(f, n) => (f.clone(), RefErr::EofSources(*n)),
        ParseError::UnexpectedEndOfFileMidCommand(f, n) => (f.clone(), RefErr::EofCommand(*n)),
        ParseError::BundleError(f, b) => (f.clone(), RefErr::Bundle(map_bundle_err(b))),
    }
}

fn err_line(e: &RefErr) -> Option<usize>
{
    match e
    {
        RefErr::EmptyLine(n) | RefErr::ExtraColon(n) | RefErr::EofTargets(n) | RefErr::EofSources(n) | RefErr::EofCommand(n) => Some(*n),
        RefErr::Bundle(_) => None,
    }
}

pub fn compare_rules(got: &[Rule], want: &[RefRule]) -> Result<(), String>
{
    if got.len() != want.len()
    {
        return Err(format!("{} rules parsed, {} written", got.len(), want.len()));
    }
    for (g, w) in got.iter().zip(want.iter())
    {
        let gt: BTreeSet<String> = g.targets.iter().cloned().collect();
        let gs: BTreeSet<String> = g.sources.iter().cloned().collect();
        if gt != w.targets
        {
            return Err(format!("targets {:?}, written {:?}", g.targets, w.targets));
        }
        if gs != w.sources
        {
            return Err(format!("sources {:?}, written {:?}", g.sources, w.sources));
        }
        if gt.len() != g.targets.len() || gs.len() != g.sources.len()
        {
            return Err(format!("repeated path entries were not merged: targets {:?} sources {:?}", g.targets, g.sources));
        }
        if g.command != w.command
        {
            return Err(format!("command lines {:?}, written {:?}", g.command, w.command));
        }
    }
    Ok(())
}

pub fn file_name(i: usize) -> String
{
    format!("file{}.rules", i)
}

/// Parses `texts` with ruler and with the reference and compares.
pub fn check_texts(texts: &[String]) -> Result<(), String>
{
    let input: Vec<(String, String)> = texts.iter().enumerate().map(|(i, t)| (file_name(i), t.clone())).collect();
    let got = match std::panic::catch_unwind(|| rule::parse_all(input))
    {
        Ok(r) => r,
        Err(_) => return Err(format!("parser panicked on {:?}", texts)),
    };
    // reference: file by file, first error wins
    let mut want_rules: Vec<RefRule> = vec![];
    let mut want_err: Option<(usize, RefErr, usize)> = None;
    let mut open = false;
    for (i, t) in texts.iter().enumerate()
    {
        let r: RefOut = refparse::parse(t);
        open |= r.open;
        match r.result
        {
            Ok(rs) => want_rules.extend(rs),
            Err(e) => { want_err = Some((i, e, r.lines)); break; }
        }
    }
    // totality facts that hold for every text
    if let Err(e) = &got
    {
        let (f, re) = map_err(e);
        let fi = texts.iter().enumerate().position(|(i, _)| file_name(i) == f);
        match fi
        {
            None => return Err(format!("error names file {:?} which was not given", f)),
            Some(fi) =>
            {
                if let Some(n) = err_line(&re)
                {
                    let lines = texts[fi].split('\n').count();
                    if n < 1 || n > lines + 1
                    {
                        return Err(format!("error line {} outside 1..={} of {}", n, lines + 1, f));
                    }
                }
            }
        }
    }
    if open
    {
        return Ok(());
    }
    match (&got, &want_err)
    {
        (Ok(rules), None) => compare_rules(rules, &want_rules).map_err(|m| format!("{} in {:?}", m, texts)),
        (Ok(_), Some((fi, e, _))) => Err(format!("malformed text accepted; expected {:?} in {}: {:?}", e, file_name(*fi), texts)),
        (Err(e), None) => Err(format!("well-formed text rejected with {:?}: {:?}", e, texts)),
        (Err(e), Some((fi, we, _))) =>
        {
            let (f, re) = map_err(e);
            if f != file_name(*fi) || re != *we
            {
                return Err(format!("rejected with {:?}, expected {:?} in {}: {:?}", e, we, file_name(*fi), texts));
            }
            Ok(())
        }
    }
}

