//! Independent line-based reference parser for `.rules` files, written from the README
//! and the behaviour the project's own tests document (line-number conventions, bundle
//! error payloads).  Shares no code with /repo/src/rule.rs or bundle.rs.

use std::collections::{BTreeMap, BTreeSet};

#[derive(Clone, Debug, PartialEq)]
pub enum BundleErr
{
    Empty,
    EmptyLines(Vec<usize>),
    Contradiction(usize, usize),
    WrongIndent(usize),
}

#[derive(Clone, Debug, PartialEq)]
pub enum RefErr
{
    EmptyLine(usize),
    ExtraColon(usize),
    EofTargets(usize),
    EofSources(usize),
    EofCommand(usize),
    Bundle(BundleErr),
}

#[derive(Clone, Debug, PartialEq)]
pub struct RefRule
{
    pub targets: BTreeSet<String>,
    pub sources: BTreeSet<String>,
    pub command: Vec<String>,
}

#[derive(Clone, Debug)]
pub struct RefOut
{
    pub result: Result<Vec<RefRule>, RefErr>,
    /// the text uses a shape the documented format leaves open (CR characters, an empty
    /// section, tab-only lines): only totality is checked there
    pub open: bool,
    pub lines: usize,
}

#[derive(Clone, Debug, PartialEq)]
enum N
{
    Leaf,
    Dir(BTreeMap<String, N>),
}

struct L<'a>
{
    idx: usize,
    level: usize,
    text: &'a str,
}

fn block(lines: &[L], level: usize) -> Result<BTreeMap<String, N>, BundleErr>
{
    if lines.is_empty()
    {
        return Err(BundleErr::Empty);
    }
    if lines[0].level != level
    {
        return Err(BundleErr::WrongIndent(lines[0].idx));
    }
    let mut map: BTreeMap<String, (N, usize)> = BTreeMap::new();
    let mut i = 0;
    while i < lines.len()
    {
        let mut j = i + 1;
        while j < lines.len() && lines[j].level > level
        {
            j += 1;
        }
        let node = if j > i + 1 { N::Dir(block(&lines[i + 1..j], level + 1)?) } else { N::Leaf };
        match map.get(lines[i].text)
        {
            Some((existing, first)) =>
            {
                if *existing != node
                {
                    return Err(BundleErr::Contradiction(*first, lines[i].idx));
                }
            }
            None =>
            {
                map.insert(lines[i].text.to_string(), (node, lines[i].idx));
            }
        }
        i = j;
    }
    Ok(map.into_iter().map(|(k, (n, _))| (k, n)).collect())
}

fn collect(prefix: &str, m: &BTreeMap<String, N>, out: &mut BTreeSet<String>)
{
    for (name, n) in m
    {
        match n
        {
            N::Leaf => { out.insert(format!("{}{}", prefix, name)); }
            N::Dir(sub) => collect(&format!("{}{}/", prefix, name), sub, out),
        }
    }
}

pub fn bundle(section: &[&str]) -> Result<BTreeSet<String>, BundleErr>
{
    let tab_only: Vec<usize> = section.iter().enumerate().filter(|(_, l)| l.chars().all(|c| c == '\t')).map(|(i, _)| i).collect();
    if !tab_only.is_empty()
    {
        return Err(BundleErr::EmptyLines(tab_only));
    }
    let ls: Vec<L> = section.iter().enumerate().map(|(idx, l)|
    {
        let level = l.chars().take_while(|c| *c == '\t').count();
        L { idx, level, text: &l[level..] }
    }).collect();
    let tree = block(&ls, 0)?;
    let mut out = BTreeSet::new();
    collect("", &tree, &mut out);
    Ok(out)
}

pub fn parse(text: &str) -> RefOut
{
    let lines: Vec<&str> = text.split('\n').collect();
    let mut open = text.contains('\r');
    let mut rules = vec![];
    // 0 between rules, 1 targets, 2 sources, 3 command
    let mut state = 0;
    let mut secs: [Vec<&str>; 3] = [vec![], vec![], vec![]];
    for (i, line) in lines.iter().enumerate()
    {
        let no = i + 1;
        if state == 0
        {
            if line.is_empty()
            {
                continue;
            }
            if *line == ":"
            {
                return RefOut { result: Err(RefErr::ExtraColon(no)), open, lines: lines.len() };
            }
            state = 1;
            secs[0].push(line);
            continue;
        }
        if line.is_empty()
        {
            return RefOut { result: Err(RefErr::EmptyLine(no)), open, lines: lines.len() };
        }
        if *line == ":"
        {
            if state < 3
            {
                state += 1;
                continue;
            }
            // rule complete
            if secs[1].is_empty()
            {
                open = true;
            }
            if secs[0].iter().chain(secs[1].iter()).any(|l| l.chars().all(|c| c == '\t'))
            {
                open = true;
            }
            let t = match bundle(&secs[0])
            {
                Ok(t) => t,
                Err(e) => return RefOut { result: Err(RefErr::Bundle(e)), open, lines: lines.len() },
            };
            let s = match bundle(&secs[1])
            {
                Ok(s) => s,
                Err(e) => return RefOut { result: Err(RefErr::Bundle(e)), open, lines: lines.len() },
            };
            rules.push(RefRule { targets: t, sources: s, command: secs[2].iter().map(|l| l.to_string()).collect() });
            secs = [vec![], vec![], vec![]];
            state = 0;
            continue;
        }
        secs[state - 1].push(line);
    }
    let eof = lines.len() + 1;
    let result = match state
    {
        0 => Ok(rules),
        1 => Err(RefErr::EofTargets(eof)),
        2 => Err(RefErr::EofSources(eof)),
        _ => Err(RefErr::EofCommand(eof)),
    };
    RefOut { result, open, lines: lines.len() }
}
