//! Independent reading of a rule set for C12: duplicates, goal, reachability, cycles.
//! Plain data in, plain data out; shares nothing with /repo/src/sort.rs.

use std::collections::{BTreeMap, BTreeSet};

#[derive(Clone, Debug)]
pub struct PRule
{
    pub targets: Vec<String>,
    pub sources: Vec<String>,
    pub command: Vec<String>,
}

#[derive(Clone, Debug, Default)]
pub struct Analysis
{
    pub duplicate_target: bool,
    pub goal_missing: bool,
    /// a cycle of length >= 2 is reachable
    pub cycle: bool,
    /// a rule that lists one of its own targets as a source is reachable
    pub self_loop: bool,
    /// indices of the rules that must be in the plan (meaningful when no defect applies)
    pub reachable: BTreeSet<usize>,
    /// leaves of the reachable rules
    pub leaves: BTreeSet<String>,
}

impl Analysis
{
    pub fn valid(&self) -> bool
    {
        !self.duplicate_target && !self.goal_missing && !self.cycle && !self.self_loop
    }
}

pub fn analyse(rules: &[PRule], goal: Option<&str>) -> Analysis
{
    let mut a = Analysis::default();
    let mut owner: BTreeMap<&str, usize> = BTreeMap::new();
    for (i, r) in rules.iter().enumerate()
    {
        let mut seen_here = BTreeSet::new();
        for t in r.targets.iter()
        {
            if !seen_here.insert(t.as_str())
            {
                continue;
            }
            if owner.insert(t.as_str(), i).is_some()
            {
                a.duplicate_target = true;
            }
        }
    }
    let roots: Vec<usize> = match goal
    {
        None => (0..rules.len()).collect(),
        Some(g) => match owner.get(g)
        {
            Some(i) => vec![*i],
            None => { a.goal_missing = true; vec![] }
        },
    };
    if a.duplicate_target
    {
        // ownership is ambiguous; reachability below is best-effort only
    }
    // colour DFS: 0 white, 1 grey, 2 black
    let mut colour = vec![0u8; rules.len()];
    fn dfs(i: usize, rules: &[PRule], owner: &BTreeMap<&str, usize>, colour: &mut Vec<u8>, a: &mut Analysis)
    {
        colour[i] = 1;
        a.reachable.insert(i);
        for s in rules[i].sources.iter()
        {
            match owner.get(s.as_str())
            {
                Some(&j) =>
                {
                    if j == i
                    {
                        a.self_loop = true;
                    }
                    else if colour[j] == 1
                    {
                        a.cycle = true;
                    }
                    else if colour[j] == 0
                    {
                        dfs(j, rules, owner, colour, a);
                    }
                }
                None => { a.leaves.insert(s.clone()); }
            }
        }
        colour[i] = 2;
    }
    for r in roots
    {
        if colour[r] == 0
        {
            dfs(r, rules, &owner, &mut colour, &mut a);
        }
    }
    a
}
