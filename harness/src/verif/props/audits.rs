//! C07 (cache content-addressed), C08 (no content lost), C09 (only touches its own),
//! C20 (status lines): call-log and snapshot oracles over the shared histories.

use std::collections::{BTreeMap, BTreeSet};

use proptest::prelude::*;
use serde_json::json;

use crate::verif::b62;
use crate::verif::drive::{self, Ctx, Report, Stats};
use crate::verif::engine::{self, Applied, ErrSum, Inv, Obs, PLine, WErr, World, RULER_DIR};
use crate::verif::gen::{self, Op, OpMix};
use crate::verif::history::{self, HistoryCase, Monitor};
use crate::verif::model::{FailKind, ROut};
use crate::verif::vsys::{self, Clock, Snapshot};

fn cache_prefix() -> String
{
    format!("{}/cache/", RULER_DIR)
}

// ---------------------------------------------------------------------------------------
// C07

/// every cache entry is named after the hash of its own bytes
pub fn audit_cache(s: &Snapshot) -> Result<usize, String>
{
    let entries = engine::cache_entries(s);
    for (name, data) in entries.iter()
    {
        let want = b62::name_of(data);
        if *name != want
        {
            return Err(format!("cache entry {} holds {:?} whose hash is {}", name, String::from_utf8_lossy(data), want));
        }
    }
    Ok(entries.len())
}

pub fn check_c07(obs: &Obs) -> Result<(bool, bool), String>
{
    let n = audit_cache(&obs.post)?;
    // targets recovered from the cache hold the content the entry was named after
    let cp = cache_prefix();
    let mut displaced_without_rehash = false;
    for (k, e) in obs.log.iter().enumerate()
    {
        if e.in_cmd || !e.ok
        {
            continue;
        }
        if let vsys::Op::Rename(from, to) = &e.op
        {
            if from.starts_with(&cp) && !to.starts_with(&cp)
            {
                let later_touch = obs.log[k + 1..].iter().any(|x| x.ok && x.op.is_mutation() && x.op.paths().contains(&to.as_str()));
                if !later_touch
                {
                    if let Some(f) = obs.post.get(to)
                    {
                        let name = &from[cp.len()..];
                        if b62::name_of(&f.data) != *name
                        {
                            return Err(format!("target {} was recovered from cache entry {} but holds {:?} (hash {})",
                                to, name, String::from_utf8_lossy(&f.data), b62::name_of(&f.data)));
                        }
                    }
                }
            }
            if to.starts_with(&cp) && !from.starts_with(&cp)
            {
                let opened = obs.log[..k].iter().any(|x| x.thread == e.thread && matches!(&x.op, vsys::Op::Open(p) if p == from));
                if !opened
                {
                    displaced_without_rehash = true;
                }
            }
        }
    }
    Ok((n >= 2, displaced_without_rehash))
}

pub struct C07Monitor
{
    pub nontrivial: bool,
}

impl Monitor for C07Monitor
{
    fn after_invocation(&mut self, _w: &World, obs: &Obs, stats: &mut Stats) -> Result<(), String>
    {
        if let Some(m) = history::describe_abnormal(obs)
        {
            return Err(m);
        }
        let (two, trusted) = check_c07(obs)?;
        if two { stats.class("audit-with>=2-entries"); }
        if trusted { stats.class("displaced-using-remembered-hash"); }
        if two && trusted
        {
            self.nontrivial = true;
        }
        Ok(())
    }
}

// ---------------------------------------------------------------------------------------
// C08

fn content_set(s: &Snapshot, paths: &BTreeSet<String>) -> BTreeSet<Vec<u8>>
{
    let cp = cache_prefix();
    s.iter().filter(|(k, _)| paths.contains(*k) || k.starts_with(&cp)).map(|(_, v)| v.data.clone()).collect()
}

/// (a) snapshot rule; `exempt` = paths whose loss is the command's doing (torn writes in C11)
pub fn check_c08_snapshot(w: &World, pre: &Snapshot, post: &Snapshot) -> Result<(), String>
{
    let before = content_set(pre, &w.ever_targets);
    let after = content_set(post, &w.ever_targets);
    for c in before.iter()
    {
        if !after.contains(c)
        {
            let wher: Vec<&String> = pre.iter().filter(|(k, v)| v.data == *c && (w.ever_targets.contains(*k) || k.starts_with(&cache_prefix()))).map(|(k, _)| k).collect();
            return Err(format!("content {:?} (before at {:?}) is at no target path and not in the cache afterwards", String::from_utf8_lossy(c), wher));
        }
    }
    Ok(())
}

pub fn check_c08_steps(obs: &Obs) -> Result<bool, String>
{
    let mut displaced_last_copy = false;
    let cp = cache_prefix();
    for e in obs.log.iter()
    {
        if e.in_cmd || !e.ok
        {
            continue;
        }
        match &e.op
        {
            vsys::Op::Rename(from, to) =>
            {
                // ruler's own state files (table, rule histories) are not user content: the property
                // speaks of declared target paths and the cache
                let user_content = !engine::in_ruler_dir(to) || to.starts_with(&cp);
                if e.note == "dst=different" && user_content
                {
                    return Err(format!("ruler renamed {} over {} which held different content", from, to));
                }
                if to.starts_with(&cp) && !from.starts_with(&cp) && e.note == "dst=absent"
                {
                    displaced_last_copy = true;
                }
            }
            vsys::Op::Create(p) =>
            {
                if !engine::in_ruler_dir(p)
                {
                    return Err(format!("ruler itself created/truncated {} outside its directory", p));
                }
            }
            _ => {}
        }
    }
    Ok(displaced_last_copy)
}

pub struct C08Monitor
{
    pub nontrivial: bool,
}

impl Monitor for C08Monitor
{
    fn after_invocation(&mut self, w: &World, obs: &Obs, stats: &mut Stats) -> Result<(), String>
    {
        if let Some(m) = history::describe_abnormal(obs)
        {
            return Err(m);
        }
        check_c08_snapshot(w, &obs.pre, &obs.post)?;
        if check_c08_steps(obs)?
        {
            self.nontrivial = true;
            stats.class("displaced-a-file-into-a-new-cache-entry");
        }
        Ok(())
    }
}

// ---------------------------------------------------------------------------------------
// C09

pub fn check_c09(w: &World, obs: &Obs) -> Result<bool, String>
{
    let mut allowed: BTreeSet<String> = BTreeSet::new();
    for (i, r) in w.model.rules.iter().enumerate()
    {
        if obs.reference.in_scope[i]
        {
            allowed.extend(r.targets.iter().cloned());
        }
    }
    let mut mutated = false;
    for e in obs.log.iter()
    {
        if e.in_cmd || !e.op.is_mutation()
        {
            continue;
        }
        for p in e.op.paths()
        {
            if !(engine::in_ruler_dir(p) || allowed.contains(p))
            {
                return Err(format!("ruler issued {:?} on {} which is neither an in-scope target nor inside its directory (goal {:?})", e.op, p, obs.inv.goal()));
            }
        }
        if e.ok
        {
            mutated = true;
        }
    }
    let written_by_cmds: BTreeSet<&str> = obs.cmds.iter().flat_map(|c| c.writes.iter().map(|(p, _)| p.as_str())).collect();
    for (p, f) in obs.pre.iter()
    {
        if engine::in_ruler_dir(p) || allowed.contains(p) || written_by_cmds.contains(p.as_str())
        {
            continue;
        }
        match obs.post.get(p)
        {
            None => return Err(format!("{} (not an in-scope target) disappeared during the invocation", p)),
            Some(g) => if g != f { return Err(format!("{} (not an in-scope target) changed content, modification time or permissions", p)); },
        }
    }
    for p in obs.post.keys()
    {
        if !obs.pre.contains_key(p) && !engine::in_ruler_dir(p) && !allowed.contains(p) && !written_by_cmds.contains(p.as_str())
        {
            return Err(format!("{} appeared during the invocation and is not an in-scope target", p));
        }
    }
    let out_of_scope = obs.reference.in_scope.iter().any(|b| !*b);
    Ok(out_of_scope && mutated)
}

pub struct C09Monitor
{
    pub nontrivial: bool,
}

impl Monitor for C09Monitor
{
    fn after_invocation(&mut self, w: &World, obs: &Obs, stats: &mut Stats) -> Result<(), String>
    {
        if let Some(m) = history::describe_abnormal(obs)
        {
            return Err(m);
        }
        if check_c09(w, obs)?
        {
            self.nontrivial = true;
            stats.class(if obs.inv.is_build() { "goal-build-leaving-rules-out-and-mutating" } else { "goal-clean-leaving-rules-out-and-mutating" });
        }
        Ok(())
    }
}

// ---------------------------------------------------------------------------------------
// C20

fn norm(text: &str) -> &str
{
    text.trim()
}

pub fn check_c20(w: &World, obs: &Obs) -> Result<usize, String>
{
    if !obs.inv.is_build()
    {
        return Ok(0);
    }
    let returned = matches!(obs.result, Some(Ok(())) | Some(Err(ErrSum::WorkErrors(_))));
    if !returned
    {
        return Ok(0);
    }
    let mut banners: BTreeMap<String, Vec<String>> = BTreeMap::new();
    for l in obs.printed.iter()
    {
        if let PLine::Banner { text, path } = l
        {
            banners.entry(path.clone()).or_default().push(norm(text).to_string());
        }
    }
    let ran = obs.executed_rules(&w.model);
    let cp = cache_prefix();
    let mut kinds = BTreeSet::new();
    let mut known_paths = BTreeSet::new();
    for (i, r) in w.model.rules.iter().enumerate()
    {
        for t in r.targets.iter()
        {
            known_paths.insert(t.clone());
            let lines = banners.get(t).cloned().unwrap_or_default();
            let finished_ok = obs.reference.in_scope[i] && obs.reference.outcome[i] == ROut::Ok;
            if !finished_ok
            {
                if !lines.is_empty()
                {
                    return Err(format!("target {} of a rule that {} got status line(s) {:?}", t,
                        if obs.reference.in_scope[i] { "failed or was cancelled" } else { "is out of scope" }, lines));
                }
                continue;
            }
            if lines.len() != 1
            {
                return Err(format!("target {} of a finished rule has {} status lines: {:?}", t, lines.len(), lines));
            }
            let recovered = obs.log.iter().any(|e| !e.in_cmd && e.ok && matches!(&e.op, vsys::Op::Rename(a, b) if a.starts_with(&cp) && b == t));
            let touched = obs.log.iter().any(|e| e.ok && e.op.is_mutation() && e.op.paths().contains(&t.as_str()));
            let want = if ran.contains(&i) { "Built" } else if recovered { "Recovered" } else if !touched { "Up-to-date" } else { "?" };
            if want == "?"
            {
                return Err(format!("target {} was modified but neither built nor recovered, status {:?}", t, lines));
            }
            if lines[0] != want
            {
                return Err(format!("target {} was {} but reported as {:?}", t,
                    match want { "Built" => "rebuilt by its command", "Recovered" => "moved in from the cache", _ => "left untouched" }, lines[0]));
            }
            kinds.insert(want);
        }
    }
    for p in banners.keys()
    {
        if !known_paths.contains(p)
        {
            return Err(format!("status line for {} which is no rule's target", p));
        }
    }
    // each failure is reported once
    let want_failures = obs.reference.missing.len() + obs.reference.outcome.iter().filter(|o| matches!(o, ROut::Failed(_))).count();
    let got_failures = match &obs.result { Some(Err(ErrSum::WorkErrors(v))) => v.len(), _ => 0 };
    if want_failures != got_failures
    {
        return Err(format!("{} failure(s) reported, {} rule(s)/leaf file(s) failed: {:?}", got_failures, want_failures, obs.result));
    }
    Ok(kinds.len())
}

pub struct C20Monitor
{
    pub nontrivial: bool,
}

impl Monitor for C20Monitor
{
    fn after_invocation(&mut self, w: &World, obs: &Obs, stats: &mut Stats) -> Result<(), String>
    {
        if let Some(m) = history::describe_abnormal(obs)
        {
            return Err(m);
        }
        let k = check_c20(w, obs)?;
        if k >= 2
        {
            self.nontrivial = true;
            stats.class("build-with>=2-different-statuses");
        }
        if k == 3 { stats.class("build-with-all-3-statuses"); }
        Ok(())
    }
}

// ---------------------------------------------------------------------------------------
// runners

pub fn strategy(max_rules: usize, max_ops: usize, mix: OpMix) -> impl Strategy<Value = HistoryCase>
{
    // late-failing multi-line commands only where "a failing command writes nothing" is not assumed (delete_leaf marks C20's mix)
    (gen::graph_spec_ext(max_rules, true, mix.delete_leaf), gen::ops(mix, max_ops), prop_oneof![1 => Just(0u16), 1 => any::<u16>()])
        .prop_map(|(graph, ops, sched_seed)| HistoryCase { graph, ops, sched_seed })
}

macro_rules! history_prop
{
    ($test:ident, $run:ident, $replay:ident, $mon:ident, $salt:expr, $quick:expr, $thorough:expr, $mix:expr, $rule:expr, $assume:expr) =>
    {
        pub fn $test(case: &HistoryCase, stats: &mut Stats) -> Result<(), String>
        {
            let mut mon = $mon { nontrivial: false };
            history::run_history(case, Clock::Distinct, &mut mon, stats)?;
            if mon.nontrivial
            {
                stats.nontrivial(drive::key_of(case));
            }
            stats.sample(mon.nontrivial, || history::describe_case(case));
            Ok(())
        }

        pub fn $run(ctx: &Ctx) -> Report
        {
            let mut rep = Report::new("exploration", $rule);
            for a in $assume.iter()
            {
                rep.assume(a);
            }
            let (cases, max_rules, max_ops) = ctx.tier.pick($quick, $thorough);
            rep.absorb(drive::drive(ctx, $salt, cases, || strategy(max_rules, max_ops, $mix), $test));
            rep
        }

        pub fn $replay(_ctx: &Ctx, case: &serde_json::Value) -> Result<(), String>
        {
            let c: HistoryCase = drive::parse_case(case)?;
            let mut st = Stats::default();
            $test(&c, &mut st)
        }
    };
}

history_prop!(test_c07, run_c07, replay_c07, C07Monitor, 7, (30000u32, 6usize, 16usize), (150000u32, 12usize, 40usize), OpMix::full(),
    "generated histories (as C01, with tamper ops and failing commands) on VerifSystem/Distinct clock; after every build or clean, successful or not, every file \
     in the cache directory must be named base62(sha256(its bytes)) by the harness's own hash, and every target renamed out of the cache must hold the content \
     its entry name encodes. Non-trivial = an audit with >=2 entries in a history where some file was displaced into the cache under a hash ruler did not \
     recompute (no open of the path before its rename); distinct by case hash",
    ["any two distinct file writes carry distinct modification times (Distinct clock)", "crash instants are audited by C11, schedules by C06"]);

history_prop!(test_c08, run_c08, replay_c08, C08Monitor, 8, (30000u32, 6usize, 16usize), (150000u32, 12usize, 40usize), OpMix { dir_ops: 0, ..OpMix::full() },
    "generated histories (as C01); (a) the set of distinct contents found at ever-declared target paths and in the cache before an invocation is a subset of the \
     set found after it; (b) from the call log, every rename issued by ruler itself has an absent or byte-identical destination and ruler creates/truncates no \
     file outside its directory. Non-trivial = some invocation displaced a file into a cache entry that did not exist before; distinct by case hash",
    ["commands write atomically and deterministically; a failing command writes nothing (harness command language)", "crash instants are checked by C11"]);

history_prop!(test_c09, run_c09, replay_c09, C09Monitor, 9, (30000u32, 6usize, 16usize), (120000u32, 12usize, 40usize), OpMix::full(),
    "generated histories (as C01) in workspaces seeded with undeclared bystander files, sometimes a second rules file, and goal-restricted builds/cleans; every \
     mutating call ruler makes outside execute_command must name only in-scope targets (harness's own ancestor closure) or paths inside the ruler directory, and \
     every other file keeps content, mtime and exec bit. Non-trivial = a goal left >=1 rule out of scope and the invocation mutated something; distinct by case hash",
    ["command writes are excluded through the in-command flag of the call log"]);

history_prop!(test_c20, run_c20, replay_c20, C20Monitor, 20, (30000u32, 6usize, 16usize), (150000u32, 12usize, 40usize), OpMix { delete_leaf: true, ..OpMix::full() },
    "generated histories (as C01) with a recording Printer; per build, from the call log: rule executed => each target exactly one line 'Built'; otherwise renamed \
     in from the cache => 'Recovered'; no mutating call on its path => 'Up-to-date'; no line for failed/cancelled/out-of-scope rules; number of reported failures = \
     failing rules + missing leaves of the reference. Non-trivial = a build that showed >=2 different statuses; distinct by case hash",
    ["banner text is compared after trimming, colour ignored"]);
