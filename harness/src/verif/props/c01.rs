//! C01 — a successful incremental build equals a from-scratch build.

use proptest::prelude::*;
use serde_json::json;

use crate::verif::drive::{self, Ctx, Report, Stats};
use crate::verif::engine::{ErrSum, Inv, Obs, World};
use crate::verif::gen::{self, OpMix};
use crate::verif::history::{self, HistoryCase, Monitor};
use crate::verif::model::ROut;
use crate::verif::vsys::Clock;

pub struct C01Monitor
{
    pub builds: u32,
    pub change_between: bool,
    pub pending_change: bool,
    pub resolved_without_run: bool,
    pub ok_builds: u32,
}

impl C01Monitor
{
    pub fn new() -> Self
    {
        C01Monitor { builds: 0, change_between: false, pending_change: false, resolved_without_run: false, ok_builds: 0 }
    }
    pub fn nontrivial(&self) -> bool
    {
        self.builds >= 2 && self.change_between && self.resolved_without_run
    }
}

/// The C01 oracle proper, reusable by other properties.
pub fn check_c01(w: &World, obs: &Obs) -> Result<(), String>
{
    if !obs.inv.is_build()
    {
        return Ok(());
    }
    let r = &obs.reference;
    match &obs.result
    {
        Some(Ok(())) =>
        {
            if !r.all_ok()
            {
                return Err(format!("build reported success but a from-scratch build fails: outcomes {:?}, missing {:?}", r.outcome, r.missing));
            }
            for (i, rule) in w.model.rules.iter().enumerate()
            {
                if !r.in_scope[i]
                {
                    continue;
                }
                for t in rule.targets.iter()
                {
                    let want = &r.files[t].0;
                    match obs.post.get(t)
                    {
                        None => return Err(format!("build reported success but target {} does not exist", t)),
                        Some(f) if f.data != *want => return Err(format!(
                            "build reported success but target {} holds {:?}, from scratch it would hold {:?}",
                            t, String::from_utf8_lossy(&f.data), String::from_utf8_lossy(want))),
                        _ => {}
                    }
                }
            }
            Ok(())
        }
        Some(Err(e)) =>
        {
            if r.all_ok()
            {
                return Err(format!("every rule in scope succeeds from scratch, but the build failed: {:?}", e));
            }
            Ok(())
        }
        None => Err(history::describe_abnormal(obs).unwrap_or_else(|| "invocation did not return".to_string())),
    }
}

impl Monitor for C01Monitor
{
    fn after_invocation(&mut self, w: &World, obs: &Obs, stats: &mut Stats) -> Result<(), String>
    {
        if let Some(m) = history::describe_abnormal(obs)
        {
            return Err(m);
        }
        if let Inv::Build(g) = &obs.inv
        {
            self.builds += 1;
            if self.builds >= 2 && self.pending_change
            {
                self.change_between = true;
            }
            self.pending_change = false;
            stats.class(if g.is_some() { "build-with-goal" } else { "build-all" });
            if obs.ok()
            {
                self.ok_builds += 1;
                stats.class("build-ok");
                let ran = obs.executed_rules(&w.model);
                let skipped = (0..w.model.rules.len()).filter(|i| obs.reference.in_scope[*i] && obs.reference.outcome[*i] == ROut::Ok && !ran.contains(i)).count();
                if skipped > 0 && self.builds >= 2
                {
                    self.resolved_without_run = true;
                    stats.class("build-resolved-some-rule-without-running");
                }
                if obs.log.iter().any(|e| !e.in_cmd && matches!(&e.op, crate::verif::vsys::Op::Rename(a, _) if a.starts_with(".ruler/cache/")))
                {
                    stats.class("build-restored-from-cache");
                }
            }
            else
            {
                stats.class("build-err");
                if let Some(Err(ErrSum::WorkErrors(_))) = &obs.result { stats.class("build-err-work"); }
            }
        }
        else
        {
            self.pending_change = true;
        }
        check_c01(w, obs)
    }

    fn after_user_action(&mut self, _w: &World, _op: &gen::Op, a: &crate::verif::engine::Applied)
    {
        if *a != crate::verif::engine::Applied::Noop
        {
            self.pending_change = true;
        }
    }
}

pub fn strategy(max_rules: usize, max_ops: usize) -> impl Strategy<Value = HistoryCase>
{
    (gen::graph_spec_ext(max_rules, true, true), gen::ops(OpMix::full(), max_ops), prop_oneof![1 => Just(0u16), 1 => any::<u16>()])
        .prop_map(|(graph, ops, sched_seed)| HistoryCase { graph, ops, sched_seed })
}

pub fn test_case(case: &HistoryCase, stats: &mut Stats) -> Result<(), String>
{
    let mut mon = C01Monitor::new();
    history::run_history(case, Clock::Distinct, &mut mon, stats)?;
    let nt = mon.nontrivial();
    if nt
    {
        stats.nontrivial(drive::key_of(case));
    }
    if mon.ok_builds > 0 { stats.class("case-with-ok-build"); }
    stats.sample(nt, || history::describe_case(case));
    Ok(())
}

pub fn run(ctx: &Ctx) -> Report
{
    let mut rep = Report::new("exploration",
        "proptest histories (graph x ops) on VerifSystem with the Distinct clock under the deterministic scheduler; \
         non-trivial = at least two builds with an edit/revert/rule edit/tamper/delete/clean between two of them and, in a later \
         successful build, at least one in-scope rule resolved without running its command; distinct by hash of the generated case");
    rep.assume("commands are deterministic functions of their declared sources (harness command language)");
    rep.assume("any two distinct file writes carry distinct modification times (Distinct clock)");
    let (cases, max_rules, max_ops) = ctx.tier.pick((30000u32, 6usize, 16usize), (200000, 12, 40));
    rep.absorb(drive::drive(ctx, 1, cases, || strategy(max_rules, max_ops), test_case));
    // end-to-end anchor: a slice of histories through the real binary and file system with /bin/sh commands
    let mut real = crate::verif::props::realp::run_c01_real(ctx, ctx.tier.pick(24, 300));
    for f in real.1.iter_mut()
    {
        f.case = serde_json::json!({ "real_fs": f.case });
    }
    rep.absorb(real);
    rep
}

pub fn replay(_ctx: &Ctx, case: &serde_json::Value) -> Result<(), String>
{
    let mut st = Stats::default();
    if let Some(inner) = case.get("real_fs")
    {
        let c: crate::verif::props::realp::RealCase = drive::parse_case(inner)?;
        return crate::verif::props::realp::c01_real(&c, &mut st);
    }
    let c: HistoryCase = drive::parse_case(case)?;
    test_case(&c, &mut st)
}
