//! C02 — no unnecessary work: up-to-date and recoverable targets are never rebuilt.

use std::collections::{BTreeMap, BTreeSet, HashMap};

use proptest::prelude::*;
use serde_json::json;

use crate::verif::b62;
use crate::verif::drive::{self, Ctx, Report, Stats};
use crate::verif::engine::{self, Applied, ErrSum, Inv, Obs, WErr, World};
use crate::verif::gen::{self, Op, OpMix};
use crate::verif::history::{self, HistoryCase, Monitor};
use crate::verif::model::{MRule, ROut};
use crate::verif::vsys::Clock;

type Canon = (Vec<String>, Vec<String>, Vec<String>);

pub struct C02Monitor
{
    /// harness's own record: canonical rule -> source contents -> outputs per target
    records: HashMap<Canon, HashMap<Vec<Vec<u8>>, BTreeMap<String, Vec<u8>>>>,
    obligations: Vec<(usize, String)>,
    last_ok_build: Option<Option<String>>,
    user_action_since_build: bool,
    pub live_obligations: u32,
    pub nontrivial_builds: u32,
    pub restores_instead_of_runs: u32,
    /// ruler's history was (partly) deleted at some point: rules may hold history the harness no longer knows of and
    /// take cache entries the demand count cannot see, so only "still holds its output" obligations are asserted afterwards
    history_deleted_once: bool,
}

impl C02Monitor
{
    pub fn new() -> Self
    {
        C02Monitor
        {
            records: HashMap::new(),
            obligations: vec![],
            last_ok_build: None,
            user_action_since_build: true,
            live_obligations: 0,
            nontrivial_builds: 0,
            restores_instead_of_runs: 0,
            history_deleted_once: false,
        }
    }

    fn source_contents(w: &World, reference: &crate::verif::model::RefEval, r: &MRule) -> Option<Vec<Vec<u8>>>
    {
        let mut v = vec![];
        for s in r.sorted_sources()
        {
            if let Some((c, _)) = reference.files.get(&s)
            {
                v.push(c.clone());
            }
            else if let Some(c) = w.model.files.get(&s)
            {
                v.push(c.clone());
            }
            else
            {
                return None;
            }
        }
        Some(v)
    }
}

impl Monitor for C02Monitor
{
    fn before_invocation(&mut self, w: &World, inv: &Inv)
    {
        self.obligations.clear();
        if !inv.is_build()
        {
            return;
        }
        let reference = w.model.eval(inv.goal());
        let pre = w.sys.snapshot();
        let cache = engine::cache_entries(&pre);
        // demand for each cache entry: in-scope targets that do not hold the content ruler will try to bring back for
        // them. A rule that is going to FAIL in this build (e.g. one of its targets sits in a directory the user removed)
        // still restores its other targets first, so it counts too, by the harness's record of its earlier success.
        let mut demand: BTreeMap<String, u32> = BTreeMap::new();
        for (i, r) in w.model.rules.iter().enumerate()
        {
            if !reference.in_scope[i] || matches!(reference.outcome[i], ROut::Cancelled | ROut::OutOfScope)
            {
                continue;
            }
            let rec = C02Monitor::source_contents(w, &reference, r).and_then(|sc| self.records.get(&r.canon()).and_then(|m| m.get(&sc)).cloned());
            for t in r.targets.iter()
            {
                let want: Option<Vec<u8>> = match &rec
                {
                    Some(rec) => rec.get(t).cloned(),
                    None => if reference.outcome[i] == ROut::Ok { reference.files.get(t).map(|x| x.0.clone()) } else { None },
                };
                if let Some(want) = want
                {
                    if pre.get(t).map(|f| &f.data) != Some(&want)
                    {
                        *demand.entry(b62::name_of(&want)).or_insert(0) += 1;
                    }
                }
            }
        }
        for (i, r) in w.model.rules.iter().enumerate()
        {
            if !reference.in_scope[i] || reference.outcome[i] != ROut::Ok
            {
                continue;
            }
            let sc = match C02Monitor::source_contents(w, &reference, r)
            {
                Some(s) => s,
                None => continue,
            };
            let rec = match self.records.get(&r.canon()).and_then(|m| m.get(&sc))
            {
                Some(rec) => rec,
                None => continue,
            };
            let mut ok = true;
            let mut needs_restore = false;
            for t in r.targets.iter()
            {
                let out = match rec.get(t)
                {
                    Some(o) => o,
                    None => { ok = false; break; }
                };
                if pre.get(t).map(|f| &f.data) == Some(out)
                {
                    continue;
                }
                let name = b62::name_of(out);
                if cache.contains_key(&name) && demand.get(&name).cloned().unwrap_or(0) == 1
                {
                    needs_restore = true;
                    continue;
                }
                ok = false;
                break;
            }
            if ok && !(needs_restore && self.history_deleted_once)
            {
                self.obligations.push((i, if needs_restore { "restore".to_string() } else { "up-to-date".to_string() }));
            }
        }
    }

    fn after_invocation(&mut self, w: &World, obs: &Obs, stats: &mut Stats) -> Result<(), String>
    {
        if let Some(m) = history::describe_abnormal(obs)
        {
            return Err(m);
        }
        if !obs.inv.is_build()
        {
            self.user_action_since_build = true;
            self.last_ok_build = None;
            return Ok(());
        }
        // (i) at most once per build
        let ran = obs.executed_rules(&w.model);
        let mut seen = BTreeSet::new();
        for r in ran.iter()
        {
            if !seen.insert(*r)
            {
                return Err(format!("the command of rule {:?} ran twice in one build", w.model.rules[*r].targets));
            }
        }
        // (ii) must-not-run obligations
        for (i, kind) in self.obligations.iter()
        {
            if ran.contains(i)
            {
                return Err(format!(
                    "rule {:?} was built successfully before from byte-identical sources and every target {} — but its command ran again",
                    w.model.rules[*i].targets,
                    if kind == "restore" { "still held that output or was in the cache (needed by no other target)" } else { "still holds that output" }));
            }
        }
        if !self.obligations.is_empty()
        {
            self.live_obligations += self.obligations.len() as u32;
            stats.count("must_not_run_obligations", self.obligations.len() as u64);
            let restores = self.obligations.iter().filter(|(_, k)| k == "restore").count();
            stats.count("must_restore_obligations", restores as u64);
            self.restores_instead_of_runs += restores as u32;
            if self.user_action_since_build
            {
                self.nontrivial_builds += 1;
                stats.class("build-with-live-nontrivial-obligation");
            }
        }
        // (iii) immediate repeat of a successful build
        if let Some(prev_goal) = &self.last_ok_build
        {
            if !self.user_action_since_build && *prev_goal == obs.inv.goal().map(|s| s.to_string())
            {
                stats.class("immediate-repeat-build");
                if !obs.cmds.is_empty()
                {
                    return Err(format!("repeating a successful build with nothing changed ran {} command(s)", obs.cmds.len()));
                }
                for e in obs.log.iter()
                {
                    if !e.in_cmd && e.op.is_mutation() && e.ok && e.op.paths().iter().any(|p| !engine::in_ruler_dir(p))
                    {
                        return Err(format!("repeating a successful build with nothing changed modified a file outside the ruler directory: {:?}", e.op));
                    }
                }
                if !obs.ok()
                {
                    return Err(format!("repeating a successful build with nothing changed failed: {:?}", obs.result));
                }
            }
        }
        // update the harness's own record from what it saw succeed
        let contradiction_paths: BTreeSet<String> = match &obs.result
        {
            Some(Err(ErrSum::WorkErrors(v))) => v.iter().flat_map(|e| match e { WErr::Contradiction(p) => p.clone(), _ => vec![] }).collect(),
            _ => BTreeSet::new(),
        };
        let returned_normally = matches!(obs.result, Some(Ok(())) | Some(Err(ErrSum::WorkErrors(_))));
        if returned_normally
        {
            for c in obs.cmds.iter()
            {
                let key = c.lines.join("\n");
                let ri = match w.model.rules.iter().position(|r| r.script_key() == key)
                {
                    Some(i) => i,
                    None => continue,
                };
                let r = &w.model.rules[ri];
                if obs.reference.outcome[ri] != ROut::Ok || c.codes.iter().any(|x| *x != 0)
                {
                    continue;
                }
                if r.targets.iter().any(|t| contradiction_paths.contains(t))
                {
                    continue;
                }
                let sc = match C02Monitor::source_contents(w, &obs.reference, r)
                {
                    Some(s) => s,
                    None => continue,
                };
                let mut outs = BTreeMap::new();
                let mut good = true;
                for t in r.targets.iter()
                {
                    match obs.post.get(t)
                    {
                        Some(f) if f.data == obs.reference.files[t].0 => { outs.insert(t.clone(), f.data.clone()); }
                        _ => { good = false; }
                    }
                }
                if good
                {
                    self.records.entry(r.canon()).or_default().insert(sc, outs);
                }
            }
        }
        self.last_ok_build = if obs.ok() { Some(obs.inv.goal().map(|s| s.to_string())) } else { None };
        self.user_action_since_build = false;
        Ok(())
    }

    fn after_user_action(&mut self, _w: &World, op: &Op, a: &Applied)
    {
        if *a == Applied::Noop
        {
            return;
        }
        self.user_action_since_build = true;
        match op
        {
            // ruler's memory is gone (or may be): the harness's record no longer obliges anything
            Op::DeleteRulerDir | Op::DeleteHistory | Op::DeleteHistoryFile { .. } => { self.records.clear(); self.history_deleted_once = true; }
            _ => {}
        }
    }
}

pub fn strategy(max_rules: usize, max_ops: usize) -> impl Strategy<Value = HistoryCase>
{
    (gen::graph_spec(max_rules, true), gen::ops(OpMix::full(), max_ops), prop_oneof![1 => Just(0u16), 1 => any::<u16>()])
        .prop_map(|(graph, ops, sched_seed)| HistoryCase { graph, ops, sched_seed })
}

pub fn test_case(case: &HistoryCase, stats: &mut Stats) -> Result<(), String>
{
    let mut mon = C02Monitor::new();
    history::run_history(case, Clock::Distinct, &mut mon, stats)?;
    let nt = mon.nontrivial_builds > 0;
    if nt
    {
        stats.nontrivial(drive::key_of(case));
    }
    if mon.restores_instead_of_runs > 0
    {
        stats.class("case-with-restore-obligation");
    }
    stats.sample(nt && mon.restores_instead_of_runs > 0, || history::describe_case(case));
    Ok(())
}

pub fn run(ctx: &Ctx) -> Report
{
    let mut rep = Report::new("exploration",
        "same generated histories as C01 with the C02 monitor: per build, from the call log, (i) no command runs twice, (ii) a rule with a live must-not-run \
         obligation (harness's own record of a successful execution of the same canonical rule on byte-identical sources, not invalidated by a history \
         deletion; every target either holds the recorded output or that output was in the cache before the build and is demanded by exactly one target) \
         does not run, (iii) an immediately repeated successful build runs nothing and touches nothing outside the ruler directory. Non-trivial = a build \
         with at least one live obligation after a user action (not the plain repeat); distinct by case hash");
    rep.assume("commands are deterministic functions of their declared sources; Distinct clock");
    rep.assume("obligations are asserted only from the harness's own record and its own cache audit; anything else may run");
    let (cases, max_rules, max_ops) = ctx.tier.pick((30000u32, 6usize, 16usize), (150000, 12, 40));
    rep.absorb(drive::drive(ctx, 2, cases, || strategy(max_rules, max_ops), test_case));
    rep
}

pub fn replay(_ctx: &Ctx, case: &serde_json::Value) -> Result<(), String>
{
    let c: HistoryCase = drive::parse_case(case)?;
    let mut st = Stats::default();
    test_case(&c, &mut st)
}
