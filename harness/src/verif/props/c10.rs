//! C10 — clean removes targets into the cache and the next build brings them back
//! (in-memory part; the real-file-system part lives in realfs.rs).

use std::collections::{BTreeMap, BTreeSet};

use proptest::prelude::*;
use serde::{Deserialize, Serialize};
use serde_json::json;

use crate::verif::b62;
use crate::verif::drive::{self, Ctx, Report, Stats};
use crate::verif::engine::{self, Applied, Inv, Obs, World};
use crate::verif::gen::{self, GraphSpec, Op, OpMix, Sched};
use crate::verif::history;
use crate::verif::props::audits;
use crate::verif::props::c01;
use crate::verif::vsys::Clock;

pub const KF_EXEC: &str = "clean-build-exec-bit-among-byte-identical-targets";

#[derive(Clone, Debug, Serialize, Deserialize, PartialEq)]
pub struct CleanCase
{
    pub graph: GraphSpec,
    pub prefix: Vec<Op>,
    pub clean_goal: Option<u16>,
    pub build_goal: Option<u16>,
    pub sched_seed: u16,
}

pub fn test_case(ctx: &Ctx, c: &CleanCase, stats: &mut Stats) -> Result<(), String>
{
    let mut w = World::new(&c.graph, Clock::Distinct);
    for op in c.prefix.iter()
    {
        if let Applied::Invocation(inv) = w.apply(op)
        {
            let obs = w.invoke(inv, &Sched::Serial { highest: false }, None);
            if let Some(m) = history::describe_abnormal(&obs) { return Err(format!("prefix: {}", m)); }
        }
    }
    // first clause of C10 from ANY state (targets may be missing, stale or tampered): on a fork, clean and look
    {
        let mut f = w.fork();
        let g0 = f.goal_path(c.clean_goal);
        let scope0 = f.model.scope(g0.as_deref());
        let before0 = f.sys.snapshot();
        let cl = f.invoke(Inv::Clean(g0.clone()), &history::sched_for(c.sched_seed, 7), None);
        if let Some(m) = history::describe_abnormal(&cl) { return Err(format!("clean from an arbitrary state: {}", m)); }
        if cl.ok()
        {
            let cache0 = engine::cache_entries(&cl.post);
            let mut some_missing = false;
            let mut some_present = false;
            for (i, r) in f.model.rules.iter().enumerate()
            {
                if !scope0[i] { continue; }
                for t in r.targets.iter()
                {
                    if cl.post.contains_key(t)
                    {
                        return Err(format!("after clean (goal {:?}, from a state where not every target exists) the in-scope target {} still exists", g0, t));
                    }
                    match before0.get(t)
                    {
                        Some(prev) =>
                        {
                            some_present = true;
                            match cache0.get(&b62::name_of(&prev.data))
                            {
                                Some(d) if *d == prev.data => {}
                                _ => return Err(format!("after clean the previous content of {} is not in the cache under its hash", t)),
                            }
                        }
                        None => some_missing = true,
                    }
                }
            }
            if some_missing && some_present { stats.class("clean-with-some-targets-already-missing"); }
            audits::check_c09(&f, &cl)?;
        }
        else
        {
            return Err(format!("clean failed: {:?}", cl.result));
        }
    }
    // the state before the clean: a successful full build
    let full = w.invoke(Inv::Build(None), &history::sched_for(c.sched_seed, 1), None);
    if let Some(m) = history::describe_abnormal(&full) { return Err(format!("full build: {}", m)); }
    if !full.ok()
    {
        return Err(format!("the full build before the clean failed: {:?}", full.result));
    }
    c01::check_c01(&w, &full)?;
    let before = w.sys.snapshot();

    let cgoal = w.goal_path(c.clean_goal);
    let clean_scope = w.model.scope(cgoal.as_deref());
    let cleaned: Vec<String> = w.model.rules.iter().enumerate().filter(|(i, _)| clean_scope[*i]).flat_map(|(_, r)| r.targets.iter().cloned()).collect();
    let clean = w.invoke(Inv::Clean(cgoal.clone()), &history::sched_for(c.sched_seed, 2), None);
    if let Some(m) = history::describe_abnormal(&clean) { return Err(format!("clean: {}", m)); }
    if !clean.ok()
    {
        return Err(format!("clean failed: {:?}", clean.result));
    }
    let cache = engine::cache_entries(&clean.post);
    for t in cleaned.iter()
    {
        if clean.post.contains_key(t)
        {
            return Err(format!("after clean (goal {:?}) the in-scope target {} still exists", cgoal, t));
        }
        let prev = &before[t].data;
        match cache.get(&b62::name_of(prev))
        {
            Some(d) if d == prev => {}
            _ => return Err(format!("after clean the previous content of {} ({:?}) is not in the cache under its hash", t, String::from_utf8_lossy(prev))),
        }
    }
    audits::check_c09(&w, &clean)?;
    audits::audit_cache(&clean.post)?;

    let bgoal = w.goal_path(c.build_goal);
    let build = w.invoke(Inv::Build(bgoal.clone()), &history::sched_for(c.sched_seed, 3), None);
    if let Some(m) = history::describe_abnormal(&build) { return Err(format!("build after clean: {}", m)); }
    if !build.ok()
    {
        return Err(format!("the build after the clean failed: {:?}", build.result));
    }
    c01::check_c01(&w, &build)?;
    let build_scope = w.model.scope(bgoal.as_deref());
    let mut back = 0;
    let mut exec_back = 0;
    let mut multi = false;
    for (i, r) in w.model.rules.iter().enumerate()
    {
        if !(clean_scope[i] && build_scope[i])
        {
            continue;
        }
        if r.targets.len() > 1 { multi = true; }
        for t in r.targets.iter()
        {
            let was = &before[t];
            match build.post.get(t)
            {
                None => return Err(format!("cleaned target {} is in the build's scope but was not put back", t)),
                Some(f) =>
                {
                    if f.data != was.data
                    {
                        return Err(format!("cleaned target {} came back with different bytes", t));
                    }
                    // "if those targets were up to date before the clean": a target whose permission already differed from what
                    // its rule's command produces was not (an earlier build of the history may have handed it a byte-identical
                    // copy with the other permission — the known finding — and the twin may be gone by now, e.g. its rule was
                    // removed).  Coming back with the command's permission is then not a change to complain about.
                    let ref_exec = build.reference.files.get(t).map(|x| x.1);
                    if f.exec != was.exec && ref_exec.is_some() && ref_exec != Some(was.exec)
                    {
                        stats.class("permission-was-not-up-to-date-before-the-clean");
                    }
                    else if f.exec != was.exec
                    {
                        // who else held the same bytes with the other permission?
                        // the known finding's signature: byte-identical content sits (or sat) somewhere else too — at
                        // another file of the workspace or the cache — so one cache file stands for several files
                        // that may differ in permission
                        // (any other file: a leaf that a `copy` rule duplicates counts too — an earlier build may already
                        // have handed this target a byte-identical copy with the other permission, so the state before the
                        // clean was itself a product of the finding)
                        let twin = before.iter().any(|(u, g)| u != t && g.data == was.data);
                        if twin && ctx.open_finding(KF_EXEC).is_some()
                        {
                            stats.known(KF_EXEC);
                        }
                        else
                        {
                            return Err(format!("cleaned target {} came back {} its executable permission (it was {}executable before the clean{})",
                                t, if f.exec { "with" } else { "without" }, if was.exec { "" } else { "not " },
                                if twin { "; byte-identical content also sits at another target or in the cache" } else { "" }));
                        }
                    }
                    back += 1;
                    if was.exec { exec_back += 1; }
                }
            }
        }
    }
    let contents: Vec<&Vec<u8>> = cleaned.iter().map(|t| &before[t].data).collect();
    let distinct: BTreeSet<&Vec<u8>> = contents.iter().cloned().collect();
    let pairwise_different = distinct.len() == contents.len();
    if pairwise_different
    {
        if !build.cmds.is_empty()
        {
            return Err(format!("every cleaned target had different content and was up to date, yet the build after the clean ran {} command(s): {:?}",
                build.cmds.len(), build.cmds.iter().map(|c| c.lines.join("; ")).collect::<Vec<_>>()));
        }
        stats.class("no-command-clause-live");
    }
    else
    {
        stats.class("some-cleaned-contents-identical");
    }
    if cgoal.is_some() { stats.class("clean-with-goal"); }
    if bgoal.is_some() { stats.class("build-with-goal"); }
    if exec_back > 0 { stats.class("executable-target-came-back"); }
    let nt = back >= 2 && (exec_back > 0 || multi) && pairwise_different;
    if nt
    {
        stats.nontrivial(drive::key_of(c));
    }
    stats.sample(nt, || json!({
        "rules": w.model.rules.iter().map(|r| json!({"targets": r.targets, "sources": r.sources, "command": r.command_lines()})).collect::<Vec<_>>(),
        "prefix": c.prefix.iter().map(|o| format!("{:?}", o)).collect::<Vec<_>>(),
        "clean_goal": cgoal, "build_goal": bgoal, "cleaned": cleaned,
    }));
    Ok(())
}

pub fn strategy(max_rules: usize, max_ops: usize) -> impl Strategy<Value = CleanCase>
{
    let mix = OpMix { rule_edits: true, ruler_dir_damage: true, cleans: true, delete_leaf: false, swaps: 1, dir_ops: 0, orphan: false };
    (
        gen::graph_spec(max_rules, false).prop_map(|mut g|
        {
            // more executables than the default mix
            for (i, r) in g.rules.iter_mut().enumerate()
            {
                if i % 2 == 0 { if let Some(e) = r.exec.get_mut(0) { *e = true; } }
            }
            g
        }),
        gen::ops(mix, max_ops),
        prop_oneof![2 => Just(None), 1 => any::<u16>().prop_map(Some)],
        prop_oneof![2 => Just(None), 1 => any::<u16>().prop_map(Some)],
        prop_oneof![1 => Just(0u16), 1 => any::<u16>()],
    ).prop_map(|(graph, prefix, clean_goal, build_goal, sched_seed)| CleanCase { graph, prefix, clean_goal, build_goal, sched_seed })
}

pub fn run(ctx: &Ctx) -> Report
{
    let mut rep = Report::new("exploration",
        "scenario = graph (with executable targets) x random prior history x successful full build x clean (no goal / any target) x build (no goal / any target), serial or \
         random schedules. After clean: no in-scope target exists, each one's previous bytes are in the cache under the harness-computed name, out-of-scope files \
         untouched. After the build: success, every cleaned target in the build's scope back byte-identical with its exec bit, C01, and no command ran when the cleaned \
         contents are pairwise different. The same oracle runs on the real file system through the built binary (counter realfs_scenarios). Non-trivial = >=2 targets \
         came back, one of them executable or from a multi-target rule, and the no-command clause was live; distinct by case hash");
    rep.assume("Distinct clock; commands deterministic");
    let (cases, max_rules, max_ops) = ctx.tier.pick((15000u32, 6usize, 10usize), (100000, 10, 30));
    rep.absorb(drive::drive(ctx, 10, cases, || strategy(max_rules, max_ops), |c, st| test_case(ctx, c, st)));
    // the same oracle on the real file system through the built binary
    let mut real = crate::verif::props::realp::run_c10_real(ctx, ctx.tier.pick(24, 300));
    for f in real.1.iter_mut()
    {
        f.case = serde_json::json!({ "real_fs": f.case });
    }
    rep.absorb(real);
    rep
}

pub fn replay(ctx: &Ctx, case: &serde_json::Value) -> Result<(), String>
{
    let mut st = Stats::default();
    if let Some(inner) = case.get("real_fs")
    {
        let c: crate::verif::props::realp::RealCase = drive::parse_case(inner)?;
        return crate::verif::props::realp::c10_real(&c, &mut st);
    }
    let c: CleanCase = drive::parse_case(case)?;
    test_case(ctx, &c, &mut st)
}
