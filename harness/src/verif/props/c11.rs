//! C11 — being killed at any point never wedges or corrupts: the next build recovers.
//! Fault enumeration: every mutation prefix (and torn writes) of the final operation of
//! every generated scenario.

use std::collections::{BTreeMap, BTreeSet};

use proptest::prelude::*;
use serde::{Deserialize, Serialize};
use serde_json::json;

use crate::verif::drive::{self, Ctx, Report, Stats, Tier};
use crate::verif::engine::{self, Applied, ErrSum, Inv, Obs, World};
use crate::verif::gen::{self, GraphSpec, Op, OpMix, Sched};
use crate::verif::history;
use crate::verif::props::audits;
use crate::verif::props::c01;
use crate::verif::vsys::{self, Clock, CrashPlan};

#[derive(Clone, Debug, Serialize, Deserialize, PartialEq)]
pub struct CrashCase
{
    pub graph: GraphSpec,
    pub prefix: Vec<Op>,
    pub goal: Option<u16>,
    pub clean: bool,
    /// 0 = serial schedule for the crashed run; otherwise a random-walk seed
    pub sched_seed: u16,
    /// restrict to one crash point (replay files); None = enumerate all
    pub only: Option<(u64, Option<usize>)>,
}

fn crash_sched(seed: u16) -> Sched
{
    if seed == 0 { Sched::Serial { highest: false } } else { Sched::Random { seed: seed as u64, switch_num: 6 } }
}

fn cache_prefix() -> String
{
    format!("{}/cache/", engine::RULER_DIR)
}

/// C08 at the crash instant: nothing that existed before is gone, except content whose
/// every earlier location is a path the killed command itself was (re)writing.
fn check_no_loss_at_crash(w: &World, obs: &Obs) -> Result<(), String>
{
    let cp = cache_prefix();
    let cmd_touched: BTreeSet<&str> = obs.log.iter().filter(|e| e.in_cmd && e.op.is_mutation()).flat_map(|e| e.op.paths()).collect();
    let relevant = |k: &String| w.ever_targets.contains(k) || k.starts_with(&cp);
    let after: BTreeSet<&Vec<u8>> = obs.post.iter().filter(|(k, _)| relevant(k)).map(|(_, v)| &v.data).collect();
    let mut before: BTreeMap<&Vec<u8>, Vec<&String>> = BTreeMap::new();
    for (k, v) in obs.pre.iter()
    {
        if relevant(k)
        {
            before.entry(&v.data).or_default().push(k);
        }
    }
    for (c, locs) in before.iter()
    {
        if after.contains(*c)
        {
            continue;
        }
        // follow the content through ruler's own renames (ruler never copies): where did it end up?
        let mut tracked: BTreeSet<String> = locs.iter().map(|l| l.to_string()).collect();
        for e in obs.log.iter()
        {
            if let vsys::Op::Rename(a, b) = &e.op
            {
                if e.ok && !e.in_cmd && tracked.remove(a)
                {
                    tracked.insert(b.clone());
                }
            }
        }
        // lost only because the killed command was in the middle of rewriting the very path(s) holding it:
        // by determinism the command was about to write these bytes again
        if tracked.iter().all(|l| cmd_touched.contains(l.as_str()))
        {
            continue;
        }
        return Err(format!("content {:?} (before at {:?}) exists nowhere at the instant of the kill", String::from_utf8_lossy(c), locs));
    }
    Ok(())
}

pub fn test_case(tier_all_torn: bool, c: &CrashCase, stats: &mut Stats) -> Result<(), String>
{
    let mut w = World::new(&c.graph, Clock::Distinct);
    for op in c.prefix.iter()
    {
        if let Applied::Invocation(inv) = w.apply(op)
        {
            let obs = w.invoke(inv, &Sched::Serial { highest: false }, None);
            if let Some(m) = history::describe_abnormal(&obs)
            {
                return Err(format!("prefix: {}", m));
            }
        }
    }
    let goal = w.goal_path(c.goal);
    let inv = if c.clean { Inv::Clean(goal) } else { Inv::Build(goal) };
    let sched = crash_sched(c.sched_seed);
    // learn the mutation sequence of the uncrashed operation under the same schedule
    let kinds =
    {
        let mut f = w.fork();
        let obs = f.invoke(inv.clone(), &sched, None);
        if let Some(m) = history::describe_abnormal(&obs)
        {
            return Err(format!("uncrashed final operation: {}", m));
        }
        obs.mutation_kinds
    };
    let m = kinds.len() as u64;
    stats.count("mutations_total", m);
    let first_visible = kinds.iter().position(|(op, _)| op.paths().iter().any(|p| !p.ends_with(".ruler") && *p != ".ruler/cache" && *p != ".ruler/history")).unwrap_or(usize::MAX) as u64;
    let mut points: Vec<(u64, Option<usize>)> = vec![];
    for k in 0..=m
    {
        points.push((k, None));
        if k < m
        {
            if let vsys::Op::Write(_, n) = &kinds[k as usize].0
            {
                let n = *n;
                if n >= 2
                {
                    let js: Vec<usize> = if tier_all_torn && n <= 128 { (1..n).collect() } else { let mut v = vec![1, n / 2, n - 1]; v.dedup(); v };
                    for j in js
                    {
                        if j > 0 && j < n
                        {
                            points.push((k, Some(j)));
                        }
                    }
                }
            }
        }
    }
    if let Some(only) = &c.only
    {
        points.retain(|p| p == only);
    }
    let key = drive::key_of(&(&c.graph, &c.prefix, &c.goal, c.clean, c.sched_seed));
    for (k, torn) in points
    {
        let mut f = w.fork();
        let obs = f.invoke(inv.clone(), &sched, Some(CrashPlan { at: k, torn }));
        stats.count("crash_points", 1);
        let here = |m: String| format!("{} [killed before mutation #{} of {} ({:?}){}; final operation {:?}]", m, k, kinds.len(),
            kinds.get(k as usize).map(|x| &x.0), torn.map(|j| format!(", write torn after {} bytes", j)).unwrap_or_default(), inv);
        if k < m
        {
            if obs.result.is_some()
            {
                // the run finished without reaching mutation k: schedule-dependent count; not a crash point
                stats.class("crash-point-not-reached");
                continue;
            }
            if !obs.panics.is_empty()
            {
                return Err(here(format!("panic before the kill: {}", obs.panics.join(" | "))));
            }
        }
        // at the frozen instant
        audits::audit_cache(&obs.post).map_err(|e| here(format!("at the instant of the kill: {}", e)))?;
        check_no_loss_at_crash(&f, &obs).map_err(&here)?;
        // recovery: a fresh build of everything
        let rec = f.invoke(Inv::Build(None), &Sched::Serial { highest: false }, None);
        if let Some(mm) = history::describe_abnormal(&rec)
        {
            return Err(here(format!("next build after the kill: {}", mm)));
        }
        match &rec.result
        {
            Some(Ok(())) => {}
            other => return Err(here(format!("the next build after the kill does not succeed: {:?}", other))),
        }
        c01::check_c01(&f, &rec).map_err(|e| here(format!("next build after the kill: {}", e)))?;
        audits::audit_cache(&rec.post).map_err(|e| here(format!("after recovery: {}", e)))?;
        let again = f.invoke(Inv::Build(None), &Sched::Serial { highest: false }, None);
        if !again.ok() || !again.cmds.is_empty()
        {
            return Err(here(format!("the state after recovery is not a normal state: a second build ran {} command(s), result {:?}", again.cmds.len(), again.result)));
        }
        let inside = k > 0 && k < m && k > first_visible;
        if inside
        {
            stats.nontrivial(key ^ (k.wrapping_mul(0x9E3779B97F4A7C15)) ^ torn.map(|j| j as u64 + 1).unwrap_or(0));
            let kind = match kinds.get(k as usize)
            {
                Some((op, in_cmd)) =>
                {
                    let in_state = op.paths().iter().any(|p| p.contains("current_file_states") || p.contains("/history/"));
                    format!("kill-before:{}{}{}", match op { vsys::Op::Create(_) => "create", vsys::Op::Write(_, _) => "write", vsys::Op::Rename(_, _) => "rename", vsys::Op::Chmod(_, _) => "chmod", vsys::Op::Mkdir(_) => "mkdir", _ => "other" },
                        if *in_cmd { "-in-command" } else { "" }, if in_state { "-state-file" } else { "" })
                }
                None => "kill-after-last".to_string(),
            };
            stats.class(&kind);
            if torn.is_some() { stats.class("torn-write"); }
        }
    }
    stats.sample(m > 10, || json!({
        "rules": w.model.rules.iter().map(|r| json!({"targets": r.targets, "sources": r.sources, "command": r.command_lines()})).collect::<Vec<_>>(),
        "prefix": c.prefix.iter().map(|o| format!("{:?}", o)).collect::<Vec<_>>(),
        "final": format!("{:?}", inv),
        "mutation_sequence": kinds.iter().map(|(op, ic)| format!("{}{:?}", if *ic { "cmd:" } else { "" }, op)).collect::<Vec<_>>(),
    }));
    Ok(())
}

fn prefix() -> impl Strategy<Value = Vec<Op>>
{
    prop_oneof![
        2 => Just(vec![]),
        2 => Just(vec![Op::Build { goal: None }]),
        2 => Just(vec![Op::Build { goal: None }, Op::Clean { goal: None }]),
        3 => (any::<u16>(), 0u8..gen::N_CONTENTS).prop_map(|(leaf, content)| vec![Op::Build { goal: None }, Op::Edit { leaf, content }]),
        3 => (any::<u16>(), 0u8..gen::N_CONTENTS).prop_map(|(leaf, content)| vec![Op::Build { goal: None }, Op::Edit { leaf, content }, Op::Build { goal: None }, Op::Revert { leaf }]),
        2 => (any::<u16>(), 0u8..gen::N_CONTENTS, any::<u16>()).prop_map(|(t, content, rule)| vec![Op::Build { goal: None }, Op::Tamper { t, content }, Op::Retag { rule }]),
        4 => gen::ops(OpMix { rule_edits: true, ruler_dir_damage: true, cleans: true, delete_leaf: false, swaps: 1, dir_ops: 0, orphan: false }, 8),
    ]
}

pub fn strategy(max_rules: usize, with_scheds: bool) -> impl Strategy<Value = CrashCase>
{
    (
        gen::graph_spec(max_rules, false),
        prefix(),
        prop_oneof![3 => Just(None), 1 => any::<u16>().prop_map(Some)],
        prop_oneof![4 => Just(false), 1 => Just(true)],
        if with_scheds { prop_oneof![2 => Just(0u16), 1 => 1u16..1000].boxed() } else { Just(0u16).boxed() },
    ).prop_map(|(graph, prefix, goal, clean, sched_seed)| CrashCase { graph, prefix, goal, clean, sched_seed, only: None })
}

pub fn run(ctx: &Ctx) -> Report
{
    let mut rep = Report::new("fault_enumeration",
        "scenario = graph x prior history x final operation (build, goal build, clean), all commands succeeding; the final operation is run once uncrashed to learn \
         its mutation sequence (every create, write, rename, chmod, mkdir inside ruler and inside commands), then re-run from the same forked state and killed before \
         EVERY mutation k in 0..=M and, for each write, after 1, n/2 and n-1 bytes (every byte count for writes <=128 bytes in the thorough tier); a third of the scenarios run \
         the crashed operation under a seeded random-walk schedule instead of the serial one. At the frozen instant: cache content-addressed, nothing lost; then a fresh build must succeed, satisfy C01, and a second build \
         must run nothing. Non-trivial crash point = strictly inside the operation and after the first mutation of user-visible data or a state file; distinct by \
         (case hash, k, torn length)");
    rep.assume("completed file-system operations are durable and ordered (no write-back reordering); rename is atomic");
    rep.assume("scenarios contain no failing rule, so 'the next build succeeds' is owed; Distinct clock");
    rep.assume("content is exempt from the no-loss rule at the kill instant when every place it sat (followed through ruler's own renames) is a path the killed command itself was rewriting: by determinism the command was about to write the same bytes");
    let thorough = ctx.tier == Tier::Thorough;
    let (cases, max_rules) = ctx.tier.pick((2500u32, 5usize), (15000, 8));
    rep.absorb(drive::drive(ctx, 11, cases, || strategy(max_rules, true), |c, st| test_case(thorough, c, st)));
    rep
}

pub fn replay(_ctx: &Ctx, case: &serde_json::Value) -> Result<(), String>
{
    let c: CrashCase = drive::parse_case(case)?;
    let mut st = Stats::default();
    test_case(true, &c, &mut st)
}
