//! C12 — dependency sorting accepts exactly the valid graphs and orders them correctly.

use std::collections::{BTreeMap, BTreeSet};

use proptest::prelude::*;
use serde::{Deserialize, Serialize};
use serde_json::json;

use crate::rule::Rule;
use crate::sort::{topological_sort, topological_sort_all, NodePack, SourceIndex, TopologicalSortError};
use crate::verif::drive::{self, Ctx, Report, Stats, Tier};
use crate::verif::oracle::refsort::{analyse, PRule};
use crate::verif::sched::XorShift;

#[derive(Clone, Debug, Serialize, Deserialize, PartialEq)]
pub struct SortCase
{
    /// (targets, sources, command) — parser-shaped: sorted, duplicate-free lists
    pub rules: Vec<(Vec<String>, Vec<String>, Vec<String>)>,
    pub goal: Option<String>,
    pub shuffle_seed: u64,
}

fn to_rules(c: &SortCase) -> Vec<Rule>
{
    c.rules.iter().map(|(t, s, k)| Rule::new(t.clone(), s.clone(), k.clone())).collect()
}

/// The parser returns paths in bundle order, which is not always string order (a directory `lib` next to a file
/// `lib.d`): the same rules with their path lists in another order must give the same plan.
fn to_rules_lists_shuffled(c: &SortCase, seed: u64) -> Vec<Rule>
{
    c.rules.iter().enumerate().map(|(i, (t, s, k))| Rule::new(shuffled(t, seed.wrapping_add(i as u64 * 2 + 1)), shuffled(s, seed.wrapping_add(i as u64 * 2 + 2)), k.clone())).collect()
}

fn shuffled<T: Clone>(v: &[T], seed: u64) -> Vec<T>
{
    let mut out = v.to_vec();
    let mut r = XorShift::new(seed);
    for i in (1..out.len()).rev()
    {
        let j = r.below((i + 1) as u64) as usize;
        out.swap(i, j);
    }
    out
}

fn run_sort(rules: Vec<Rule>, goal: Option<&str>) -> Result<NodePack, TopologicalSortError>
{
    match goal
    {
        Some(g) => topological_sort(rules, g),
        None => topological_sort_all(rules),
    }
}

/// All structural requirements on an accepted plan (membership, order, bindings, leaves, identity).
fn validate(pack: &NodePack, prules: &[PRule], a: &crate::verif::oracle::refsort::Analysis) -> Result<(), String>
{
    if !a.valid()
    {
        return Err(format!("invalid rule set accepted (dup={}, goal_missing={}, cycle={}, self_loop={})",
            a.duplicate_target, a.goal_missing, a.cycle, a.self_loop));
    }
    // nodes = exactly the reachable rules, each once
    let mut by_targets: BTreeMap<Vec<String>, usize> = BTreeMap::new();
    for i in a.reachable.iter()
    {
        let mut t = prules[*i].targets.clone();
        t.sort();
        by_targets.insert(t, *i);
    }
    if pack.nodes.len() != a.reachable.len()
    {
        return Err(format!("plan has {} nodes, {} rules are required", pack.nodes.len(), a.reachable.len()));
    }
    let mut seen = BTreeSet::new();
    let mut owner: BTreeMap<&str, (usize, usize)> = BTreeMap::new(); // target -> (node index, sub index)
    for (ni, n) in pack.nodes.iter().enumerate()
    {
        let ri = match by_targets.get(&n.targets)
        {
            Some(r) => *r,
            None => return Err(format!("plan node {} with targets {:?} is not a required rule (or its targets changed)", ni, n.targets)),
        };
        if !seen.insert(ri)
        {
            return Err(format!("rule {:?} appears twice in the plan", n.targets));
        }
        if n.command != prules[ri].command
        {
            return Err(format!("command of rule {:?} changed", n.targets));
        }
        let want_ticket = Rule::new(prules[ri].targets.clone(), prules[ri].sources.clone(), prules[ri].command.clone()).get_ticket();
        if n.rule_ticket != want_ticket
        {
            return Err(format!("rule identity of {:?} changed", n.targets));
        }
        for (si, t) in n.targets.iter().enumerate()
        {
            owner.insert(t.as_str(), (ni, si));
        }
    }
    // leaves sorted, exact
    let want_leaves: Vec<String> = a.leaves.iter().cloned().collect();
    if pack.leaves != want_leaves
    {
        return Err(format!("leaves {:?}, expected {:?}", pack.leaves, want_leaves));
    }
    let all_targets: BTreeSet<&str> = prules.iter().flat_map(|r| r.targets.iter().map(|t| t.as_str())).collect();
    for (ni, n) in pack.nodes.iter().enumerate()
    {
        let ri = by_targets[&n.targets];
        let mut srcs = prules[ri].sources.clone();
        srcs.sort();
        if n.source_indices.len() != srcs.len()
        {
            return Err(format!("node {:?} has {} source bindings for {} sources", n.targets, n.source_indices.len(), srcs.len()));
        }
        // every source must be bound exactly once; binding order is the sorted source order
        for (k, s) in srcs.iter().enumerate()
        {
            match &n.source_indices[k]
            {
                SourceIndex::Leaf(i) =>
                {
                    if *i >= pack.leaves.len() || pack.leaves[*i] != *s
                    {
                        return Err(format!("node {:?}: source {} bound to leaf #{} = {:?}", n.targets, s, i, pack.leaves.get(*i)));
                    }
                    if all_targets.contains(s.as_str())
                    {
                        return Err(format!("node {:?}: source {} is a rule's target but bound as a leaf", n.targets, s));
                    }
                }
                SourceIndex::Pair(i, sub) =>
                {
                    if *i >= ni
                    {
                        return Err(format!("node #{} {:?} depends on node #{} which does not come before it", ni, n.targets, i));
                    }
                    let got = pack.nodes[*i].targets.get(*sub);
                    if got != Some(s)
                    {
                        return Err(format!("node {:?}: source {} bound to node #{} target #{} = {:?}", n.targets, s, i, sub, got));
                    }
                }
            }
        }
    }
    Ok(())
}

pub fn check(c: &SortCase) -> Result<(), String>
{
    let prules: Vec<PRule> = c.rules.iter().map(|(t, s, k)| PRule { targets: t.clone(), sources: s.clone(), command: k.clone() }).collect();
    let a = analyse(&prules, c.goal.as_deref());
    let res = run_sort(to_rules(c), c.goal.as_deref());
    match &res
    {
        Err(e) =>
        {
            let ok = match e
            {
                TopologicalSortError::TargetInMultipleRules(_) => a.duplicate_target,
                TopologicalSortError::TargetMissing(_) => a.goal_missing,
                TopologicalSortError::SelfDependentRule(_) => a.self_loop || a.cycle,
                TopologicalSortError::CircularDependence(_) => a.cycle || a.self_loop,
            };
            if a.valid()
            {
                return Err(format!("valid rule set (no duplicate target, goal present, no reachable cycle) rejected with {:?}", e));
            }
            if !ok
            {
                return Err(format!("rejected with {:?}, but that condition does not hold (dup={}, goal_missing={}, cycle={}, self_loop={})",
                    e, a.duplicate_target, a.goal_missing, a.cycle, a.self_loop));
            }
            // the verdict must not depend on input order either
            let res2 = run_sort(shuffled(&to_rules(c), c.shuffle_seed), c.goal.as_deref());
            if res2.is_ok()
            {
                return Err(format!("rejected with {:?} in one input order but accepted in another", e));
            }
            Ok(())
        }
        Ok(pack) =>
        {
            validate(pack, &prules, &a)?;
            // the parser returns paths in bundle order, which is not always string order: with the path lists inside the
            // rules in another order the plan must still be accepted and valid (it need not be the identical plan: the
            // property promises that only for re-ordering the rules)
            match run_sort(to_rules_lists_shuffled(c, c.shuffle_seed ^ 0x51), c.goal.as_deref())
            {
                Ok(p3) => validate(&p3, &prules, &a).map_err(|m| format!("with the path lists inside the rules in another order: {}", m))?,
                Err(e) => return Err(format!("accepted, but rejected with {:?} when the path lists inside the rules are given in another order", e)),
            }
            // same plan for any ordering of the input
            let res2 = run_sort(shuffled(&to_rules(c), c.shuffle_seed), c.goal.as_deref());
            match res2
            {
                Ok(p2) => if p2 != *pack { return Err("plan differs for a different ordering of the input rules".to_string()); },
                Err(e) => return Err(format!("accepted in one input order but rejected with {:?} in another", e)),
            }
            Ok(())
        }
    }
}

fn classify(c: &SortCase, stats: &mut Stats)
{
    let prules: Vec<PRule> = c.rules.iter().map(|(t, s, k)| PRule { targets: t.clone(), sources: s.clone(), command: k.clone() }).collect();
    let a = analyse(&prules, c.goal.as_deref());
    let all_targets: BTreeSet<&str> = prules.iter().flat_map(|r| r.targets.iter().map(|t| t.as_str())).collect();
    let edges = prules.iter().map(|r| r.sources.iter().filter(|s| all_targets.contains(s.as_str())).count()).sum::<usize>();
    if a.valid() { stats.class("valid"); }
    if a.duplicate_target { stats.class("duplicate-target"); }
    if a.goal_missing { stats.class("goal-missing"); }
    if a.cycle { stats.class("cycle"); }
    if a.self_loop { stats.class("self-loop"); }
    if c.goal.is_some() { stats.class("with-goal"); }
    if prules.iter().any(|r| r.targets.len() > 1) { stats.class("multi-target"); }
    let nt = prules.len() >= 2 && edges >= 1;
    if nt
    {
        stats.nontrivial(drive::key_of(c));
    }
    stats.sample(nt && a.valid(), || json!(c));
}

pub fn test_case(c: &SortCase, stats: &mut Stats) -> Result<(), String>
{
    classify(c, stats);
    check(c)
}

// ----- exhaustive small scope -----

fn perms(n: usize) -> Vec<Vec<usize>>
{
    fn rec(cur: &mut Vec<usize>, used: &mut Vec<bool>, n: usize, out: &mut Vec<Vec<usize>>)
    {
        if cur.len() == n
        {
            out.push(cur.clone());
            return;
        }
        for i in 0..n
        {
            if !used[i]
            {
                used[i] = true;
                cur.push(i);
                rec(cur, used, n, out);
                cur.pop();
                used[i] = false;
            }
        }
    }
    let mut out = vec![];
    rec(&mut vec![], &mut vec![false; n], n, &mut out);
    out
}

/// Build the case for adjacency bit mask `g` on `n` rules (bit i*n+j: rule i lists a target
/// of rule j as a source), labelling `lab`, multi-target variant or not.
fn small_case(n: usize, g: u64, lab: &[usize], multi: bool, goal: usize) -> SortCase
{
    let name = |i: usize, k: usize| -> String
    {
        let base = (b'a' + lab[i] as u8) as char;
        if k == 0 { format!("{}", base) } else { format!("{}{}", base, k) }
    };
    let mut rules = vec![];
    for i in 0..n
    {
        let mut targets = vec![name(i, 0)];
        if multi
        {
            targets.push(name(i, 1));
        }
        targets.sort();
        let mut sources = vec![];
        for j in 0..n
        {
            if g >> (i * n + j) & 1 == 1
            {
                let k = if multi { (i + j) % 2 } else { 0 };
                sources.push(name(j, k));
            }
        }
        if sources.is_empty() || i % 2 == 0
        {
            sources.push(format!("zleaf{}", if i % 3 == 0 { 0 } else { i }));
        }
        sources.sort();
        sources.dedup();
        rules.push((targets, sources, vec![format!("cmd {}", i)]));
    }
    // goal: 0..n = that rule's (last) target, n = all, n+1 = missing
    let goal_s = if goal < n { Some(rules[goal].0.last().unwrap().clone()) } else if goal == n { None } else { Some("nosuch".to_string()) };
    SortCase { rules, goal: goal_s, shuffle_seed: g.wrapping_mul(2654435761).wrapping_add(goal as u64 + 1) }
}

fn exhaustive(ctx: &Ctx, rep: &mut Report, n: usize, labelings: &[Vec<usize>], goals: &[usize], multis: &[bool])
{
    let total: u64 = 1u64 << (n * n);
    let chunks: Vec<(u64, u64)> =
    {
        let k = (ctx.workers as u64 * 8).min(total);
        (0..k).map(|c| (c * total / k, (c + 1) * total / k)).collect()
    };
    let r = drive::drive_list(ctx, chunks, |(lo, hi), stats|
    {
        // the chunk counts as one list item; count real evaluations ourselves
        stats.evaluations -= 1;
        let mut first_err: Option<String> = None;
        for g in *lo..*hi
        {
            for lab in labelings
            {
                for &multi in multis
                {
                    for &goal in goals
                    {
                        let c = small_case(n, g, lab, multi, goal);
                        stats.evaluations += 1;
                        if n >= 2 && g != 0
                        {
                            // distinct by construction: count via a cheap structural key
                            let has_edge = (0..n).any(|i| (0..n).any(|j| i != j && g >> (i * n + j) & 1 == 1));
                            if has_edge
                            {
                                stats.count("exhaustive_nontrivial", 1);
                            }
                        }
                        if g % 9973 == 1 && goal == n && !multi
                        {
                            stats.sample(true, || json!(c));
                        }
                        if let Err(m) = check(&c)
                        {
                            stats.count("exhaustive_failures", 1);
                            if first_err.is_none()
                            {
                                first_err = Some(format!("{} :: {}", m, serde_json::to_string(&c).unwrap()));
                            }
                        }
                    }
                }
            }
        }
        match first_err
        {
            Some(m) => Err(m),
            None => Ok(()),
        }
    });
    // turn chunk failures into case failures (the case JSON is after " :: ")
    let (stats, fails) = r;
    rep.stats.merge(stats);
    for f in fails
    {
        if let Some(pos) = f.reason.find(" :: ")
        {
            let case: serde_json::Value = serde_json::from_str(&f.reason[pos + 4..]).unwrap_or(serde_json::Value::Null);
            rep.failures.push(drive::Failure { reason: f.reason[..pos].to_string(), case });
        }
        else
        {
            rep.failures.push(f);
        }
    }
}

// ----- random larger graphs -----

pub fn strategy(max_rules: usize) -> impl Strategy<Value = SortCase>
{
    let rule = (proptest::collection::vec(any::<u16>(), 1..=3), proptest::collection::vec((any::<bool>(), any::<u16>()), 1..=4), 0u8..4);
    (proptest::collection::vec(rule, 1..=max_rules), 0u8..8, any::<u16>(), any::<u64>(), 0u8..10, 0u8..10)
        .prop_map(|(raw, name_pool_bits, goal_pick, shuffle_seed, dup_bias, back_bias)|
        {
            // names: small pool => duplicates and cycles happen; large pool => mostly valid DAGs
            let n = raw.len();
            let pool = (n * 3).max(3) * (1 + name_pool_bits as usize % 3);
            let mut rules: Vec<(Vec<String>, Vec<String>, Vec<String>)> = vec![];
            let mut next_fresh = 0usize;
            let mut all_targets: Vec<String> = vec![];
            for (i, (ts, ss, cmd)) in raw.iter().enumerate()
            {
                let mut targets = vec![];
                for t in ts
                {
                    // mostly fresh names (valid), sometimes a pooled name (may duplicate)
                    let name = if (*t % 10) < dup_bias.min(2) as u16 { format!("t{}", gen_pick(*t, pool)) } else { next_fresh += 1; format!("u{}", next_fresh) };
                    targets.push(name);
                }
                targets.sort();
                targets.dedup();
                let mut sources = vec![];
                for (is_rule, s) in ss
                {
                    if *is_rule && !all_targets.is_empty() && (*s % 10) >= back_bias.min(3) as u16
                    {
                        // an earlier rule's target: keeps the graph acyclic
                        sources.push(all_targets[gen_pick(*s, all_targets.len())].clone());
                    }
                    else if *is_rule
                    {
                        // any name: may point forward (cycle) or at itself
                        sources.push(if s % 3 == 0 { format!("t{}", gen_pick(*s, pool)) } else { format!("u{}", 1 + gen_pick(*s, (n * 2).max(1))) });
                    }
                    else
                    {
                        sources.push(format!("leaf{}", s % 7));
                    }
                }
                sources.sort();
                sources.dedup();
                all_targets.extend(targets.iter().cloned());
                rules.push((targets, sources, vec![format!("c{}", i), format!("k{}", cmd)]));
            }
            let goal = match goal_pick % 4
            {
                0 => None,
                1 => Some("missing-goal".to_string()),
                _ => Some(all_targets[gen_pick(goal_pick, all_targets.len())].clone()),
            };
            SortCase { rules, goal, shuffle_seed }
        })
}

fn gen_pick(i: u16, len: usize) -> usize
{
    crate::verif::gen::pick(i, len)
}

pub fn run(ctx: &Ctx) -> Report
{
    let mut rep = Report::new("exploration",
        "(i) every directed graph incl. self-loops on n<=4 single- and two-target rules (n=5 single-target in the thorough tier) x every goal choice \
         (each rule, all, a missing goal) x labelings so that every relative name order occurs; (ii) proptest rule sets up to 40 rules with 1-3 targets, \
         duplicate targets, self-dependence, cycles, goals, shuffled input. Non-trivial = at least 2 rules and at least one rule-to-rule edge; \
         the exhaustive cases are distinct by construction (counter exhaustive_nontrivial), the random ones by case hash");
    rep.assume("rules are parser-shaped: sorted, duplicate-free path lists; every rule has at least one source");
    rep.assume("error payloads (cycle listings) are not compared, only kinds; SelfDependentRule and CircularDependence are both accepted for any reachable cycle");
    // exhaustive part
    for n in 1..=3usize
    {
        let labs = perms(n);
        let goals: Vec<usize> = (0..n + 2).collect();
        exhaustive(ctx, &mut rep, n, &labs, &goals, &[false, true]);
    }
    {
        let n = 4;
        let all = perms(n);
        let labs: Vec<Vec<usize>> = if ctx.tier == Tier::Quick { vec![all[0].clone(), all[23].clone(), all[9].clone()] } else { all };
        let goals: Vec<usize> = (0..n + 2).collect();
        exhaustive(ctx, &mut rep, n, &labs, &goals, &[false, true]);
    }
    if ctx.tier == Tier::Thorough
    {
        let n = 5;
        let all = perms(n);
        let labs = vec![all[0].clone(), all[119].clone()];
        exhaustive(ctx, &mut rep, n, &labs, &[0, 2, 5, 6], &[false]);
    }
    let exh_nt = rep.stats.counters.get("exhaustive_nontrivial").cloned().unwrap_or(0);
    // random part
    let cases = ctx.tier.pick(20000u32, 300000);
    rep.absorb(drive::drive(ctx, 12, cases, || strategy(40), test_case));
    // fold the exhaustive distinct count into distinct_nontrivial (all distinct by construction)
    rep.stats.nontrivial_extra += exh_nt;
    rep.exhaustive = false;
    rep.extra = json!({ "exhaustive_small_scope": { "complete": true, "n_max": if ctx.tier == Tier::Quick { 4 } else { 5 }, "nontrivial_cases": exh_nt } });
    rep
}

pub fn replay(_ctx: &Ctx, case: &serde_json::Value) -> Result<(), String>
{
    let c: SortCase = drive::parse_case(case)?;
    check(&c)
}
