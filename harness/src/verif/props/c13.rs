//! C13 — rule identity: history is shared exactly between identical rules.

use std::collections::BTreeSet;

use proptest::prelude::*;
use serde::{Deserialize, Serialize};
use serde_json::json;

use crate::rule::{self, Rule};
use crate::verif::drive::{self, Ctx, Report, Stats};
use crate::verif::sched::XorShift;

#[derive(Clone, Debug, Serialize, Deserialize, PartialEq)]
pub struct PlainRule
{
    pub targets: Vec<String>,
    pub sources: Vec<String>,
    pub command: Vec<String>,
}

#[derive(Clone, Debug, Serialize, Deserialize, PartialEq)]
pub struct PairCase
{
    pub a: PlainRule,
    pub b: PlainRule,
    pub how: String,
    /// construct through render+parse (true) or Rule::new on shuffled lists (false)
    pub via_parser: bool,
    pub shuffle: u64,
}

fn canon(r: &PlainRule) -> (BTreeSet<String>, BTreeSet<String>, Vec<String>)
{
    (r.targets.iter().cloned().collect(), r.sources.iter().cloned().collect(), r.command.clone())
}

fn shuffled(v: &[String], seed: u64) -> Vec<String>
{
    let mut out = v.to_vec();
    let mut r = XorShift::new(seed);
    for i in (1..out.len()).rev()
    {
        let j = r.below((i + 1) as u64) as usize;
        out.swap(i, j);
    }
    out
}

fn render(r: &PlainRule, seed: u64, repeat: bool) -> String
{
    let mut s = String::new();
    let mut t = shuffled(&r.targets, seed);
    if repeat
    {
        let first = t[0].clone();
        t.push(first);
    }
    for x in t
    {
        s.push_str(&x);
        s.push('\n');
    }
    s.push_str(":\n");
    for x in shuffled(&r.sources, seed.wrapping_add(1))
    {
        s.push_str(&x);
        s.push('\n');
    }
    s.push_str(":\n");
    for x in r.command.iter()
    {
        s.push_str(x);
        s.push('\n');
    }
    s.push_str(":\n");
    s
}

fn build(r: &PlainRule, via_parser: bool, seed: u64) -> Result<Rule, String>
{
    if via_parser
    {
        let text = render(r, seed, seed % 3 == 0);
        match rule::parse("x.rules".to_string(), text.clone())
        {
            Ok(mut v) if v.len() == 1 => Ok(v.remove(0)),
            Ok(v) => Err(format!("rendered rule parsed into {} rules: {:?}", v.len(), text)),
            Err(e) => Err(format!("rendered rule does not parse: {:?} text {:?}", e, text)),
        }
    }
    else
    {
        Ok(Rule::new(shuffled(&r.targets, seed), shuffled(&r.sources, seed.wrapping_add(1)), r.command.clone()))
    }
}

pub fn check(c: &PairCase) -> Result<(), String>
{
    let ra = build(&c.a, c.via_parser, c.shuffle)?;
    let rb = build(&c.b, c.via_parser, c.shuffle.wrapping_mul(31).wrapping_add(7))?;
    let same_identity = ra.get_ticket() == rb.get_ticket();
    let same_meaning = canon(&c.a) == canon(&c.b);
    if same_identity && !same_meaning
    {
        return Err(format!("different rules share one identity ({}): {:?} vs {:?}", c.how, c.a, c.b));
    }
    if !same_identity && same_meaning
    {
        return Err(format!("the same rule (same target set, source set, command lines) got two identities ({}): {:?} vs {:?}", c.how, c.a, c.b));
    }
    Ok(())
}

/// path-like strings obeying the parser's invariants: non-empty, no newline, no tab,
/// no '/', not a lone ':'
fn name() -> impl Strategy<Value = String>
{
    prop_oneof![
        6 => "[a-d]{1,3}",
        2 => "[a-c:; .]{1,4}",
        1 => "[a-b]{1,2}:",
        1 => ":[a-b]{1,2}",
    ].prop_filter("parser invariants", |s: &String| !s.is_empty() && s != ":" && !s.trim_matches('\t').is_empty())
}

fn cmdline() -> impl Strategy<Value = String>
{
    prop_oneof![
        5 => "[a-d ]{1,6}",
        2 => "[a-c:; ]{1,5}",
        1 => Just(";".to_string()),
    ].prop_filter("parser invariants", |s: &String| !s.is_empty() && s != ":")
}

fn plain_rule() -> impl Strategy<Value = PlainRule>
{
    prop_oneof![
        4 => (proptest::collection::btree_set(name(), 1..=4), proptest::collection::btree_set(name(), 1..=4), proptest::collection::vec(cmdline(), 1..=4))
            .prop_map(|(t, s, c)| PlainRule { targets: t.into_iter().collect(), sources: s.into_iter().collect(), command: c }),
        // long rules: the text that identifies the rule spans several 256-byte blocks (many sources, long command lines)
        1 => (proptest::collection::btree_set("[a-d]{1,3}", 1..=3), proptest::collection::btree_set("[a-f/_.]{6,30}", 2..=12), proptest::collection::vec("[a-z ]{10,70}", 3..=16))
            .prop_map(|(t, s, c)| PlainRule { targets: t.into_iter().collect(),
                sources: s.into_iter().filter(|x: &String| !x.starts_with('/') && !x.ends_with('/') && !x.contains("//")).chain(std::iter::once("zsrc".to_string())).collect(),
                command: c }),
    ]
}

fn dedup_sorted(mut v: Vec<String>) -> Vec<String>
{
    v.sort();
    v.dedup();
    v
}

fn mutate(a: &PlainRule, kind: u8, x: u16, y: u16) -> (PlainRule, &'static str)
{
    let mut b = a.clone();
    let pick = |n: usize, i: u16| crate::verif::gen::pick(i, n);
    let how = match kind % 21
    {
        0 => { "identical" }
        1 =>
        {
            // last target becomes a source
            if b.targets.len() > 1 { let t = b.targets.remove(pick(b.targets.len(), x)); b.sources.push(t); b.sources = dedup_sorted(b.sources); }
            "target moved into sources"
        }
        2 =>
        {
            if b.sources.len() > 1 { let t = b.sources.remove(pick(b.sources.len(), x)); b.targets.push(t); b.targets = dedup_sorted(b.targets); }
            "source moved into targets"
        }
        3 =>
        {
            if b.sources.len() > 1 { let t = b.sources.remove(pick(b.sources.len(), x)); if t != ":" { b.command.insert(0, t); } }
            "source moved into command"
        }
        4 =>
        {
            if b.command.len() > 1 { let t = b.command.remove(0); b.sources.push(t); b.sources = dedup_sorted(b.sources); }
            "command line moved into sources"
        }
        5 =>
        {
            // split one command line in two
            let i = pick(b.command.len(), x);
            let line = b.command[i].clone();
            let chars: Vec<char> = line.chars().collect();
            if chars.len() >= 2
            {
                let k = 1 + pick(chars.len() - 1, y);
                let l: String = chars[..k].iter().collect();
                let r: String = chars[k..].iter().collect();
                if l != ":" && r != ":" && !l.is_empty() && !r.is_empty()
                {
                    b.command[i] = l;
                    b.command.insert(i + 1, r);
                }
            }
            "command line split"
        }
        6 =>
        {
            if b.command.len() > 1
            {
                let i = pick(b.command.len() - 1, x);
                let merged = format!("{}{}{}", b.command[i], if y % 2 == 0 { " " } else { "" }, b.command[i + 1]);
                if merged != ":" { b.command[i] = merged; b.command.remove(i + 1); }
            }
            "command lines merged"
        }
        7 =>
        {
            let i = pick(b.targets.len(), x);
            b.targets[i].push('x');
            b.targets = dedup_sorted(b.targets);
            "target renamed by one character"
        }
        8 =>
        {
            let i = pick(b.sources.len(), x);
            b.sources[i].push('x');
            b.sources = dedup_sorted(b.sources);
            "source renamed by one character"
        }
        9 =>
        {
            if b.command.len() > 1 { let i = pick(b.command.len() - 1, x); b.command.swap(i, i + 1); }
            "command lines reordered"
        }
        10 =>
        {
            // merge two path names into one ("a","b" -> "ab")
            if b.targets.len() > 1 { let t = b.targets.remove(0); b.targets[0] = format!("{}{}", t, b.targets[0]); b.targets = dedup_sorted(b.targets); }
            "two targets concatenated into one"
        }
        11 =>
        {
            b.sources.push(format!("extra{}", x % 3));
            b.sources = dedup_sorted(b.sources);
            "source added"
        }
        12 =>
        {
            if b.targets.len() > 1 { b.targets.remove(pick(b.targets.len(), x)); }
            "target removed"
        }
        14 =>
        {
            if b.sources.len() > 1 { let t = b.sources.remove(0); b.sources[0] = format!("{}{}", t, b.sources[0]); b.sources = dedup_sorted(b.sources); }
            "two sources concatenated into one"
        }
        15 | 16 =>
        {
            // the boundary between two neighbouring names moves by one character ("ab","c" -> "a","bc")
            let list = if kind % 19 == 15 { &mut b.sources } else { &mut b.targets };
            if list.len() > 1
            {
                let i = pick(list.len() - 1, x);
                let mut l: Vec<char> = list[i].chars().collect();
                if l.len() >= 2
                {
                    let ch = l.pop().unwrap();
                    let left: String = l.into_iter().collect();
                    let right = format!("{}{}", ch, list[i + 1]);
                    if left != ":" && right != ":" && !left.contains('\t') && !right.starts_with('\t')
                    {
                        list[i] = left;
                        list[i + 1] = right;
                    }
                }
                let v = std::mem::take(list);
                *list = dedup_sorted(v);
            }
            if kind % 19 == 15 { "boundary between two sources moved" } else { "boundary between two targets moved" }
        }
        17 =>
        {
            // one source split into two ("ab" -> "a","b")
            let i = pick(b.sources.len(), x);
            let chars: Vec<char> = b.sources[i].chars().collect();
            if chars.len() >= 2
            {
                let k = 1 + pick(chars.len() - 1, y);
                let l: String = chars[..k].iter().collect();
                let r: String = chars[k..].iter().collect();
                if l != ":" && r != ":"
                {
                    b.sources[i] = l;
                    b.sources.push(r);
                    b.sources = dedup_sorted(b.sources);
                }
            }
            "source split into two"
        }
        19 =>
        {
            // one character of one command line replaced
            let i = pick(b.command.len(), x);
            let mut chars: Vec<char> = b.command[i].chars().collect();
            let k = pick(chars.len(), y);
            chars[k] = if chars[k] == 'q' { 'r' } else { 'q' };
            let s: String = chars.into_iter().collect();
            if s != ":" { b.command[i] = s; }
            "one character of a command line replaced"
        }
        20 =>
        {
            // one character of one source name replaced
            let i = pick(b.sources.len(), x);
            let mut chars: Vec<char> = b.sources[i].chars().collect();
            let k = pick(chars.len(), y);
            chars[k] = if chars[k] == 'q' { 'r' } else { 'q' };
            let s: String = chars.into_iter().collect();
            if s != ":" { b.sources[i] = s; }
            b.sources = dedup_sorted(b.sources);
            "one character of a source name replaced"
        }
        _ =>
        {
            let i = pick(b.command.len(), x);
            b.command[i].push_str(" -v");
            "command changed"
        }
    };
    (b, how)
}

pub fn strategy() -> impl Strategy<Value = PairCase>
{
    prop_oneof![
        5 => (plain_rule(), any::<u8>(), any::<u16>(), any::<u16>(), any::<bool>(), any::<u64>()).prop_map(|(a, kind, x, y, via_parser, shuffle)|
        {
            let (b, how) = mutate(&a, kind, x, y);
            PairCase { a, b, how: how.to_string(), via_parser, shuffle }
        }),
        1 => (plain_rule(), plain_rule(), any::<bool>(), any::<u64>()).prop_map(|(a, b, via_parser, shuffle)|
            PairCase { a, b, how: "independent".to_string(), via_parser, shuffle }),
        // a string moves across a section boundary and the character that could pass for the boundary moves with it:
        // {.., zz} / [w+d, ..]  versus  {.., zz+d, w} / [..]  (sources|command and targets|sources).  Whatever the
        // identity is computed from, it must keep the two apart: the source sets differ.
        1 => (proptest::collection::btree_set("[a-d]{1,3}", 1..=3), proptest::collection::btree_set("[a-d]{1,3}", 0..=3),
              proptest::collection::vec(cmdline(), 1..=3), "zzz[a-d]{0,2}", 0usize..5, any::<bool>(), any::<bool>(), any::<u64>())
            .prop_map(|(t, s, c, w, d, at_targets, via_parser, shuffle)|
        {
            let d = [":", ";", " ", "::", ":;"][d];
            let t: Vec<String> = t.into_iter().collect();
            let s: Vec<String> = s.into_iter().collect();
            let (a, b) = if at_targets
            {
                // targets | sources; every other source sorts after w+d
                let tail: Vec<String> = s.iter().map(|x| format!("zzzz{}", x)).collect();
                let w = "zzz".to_string();
                let mut ta = t.clone(); ta.push("zz".to_string());
                let mut sa = vec![format!("{}{}", w, d)]; sa.extend(tail.iter().cloned());
                let mut tb = t.clone(); tb.push(format!("zz{}", d)); tb.push(w.clone());
                let mut sb = tail.clone(); if sb.is_empty() { sb.push("zzzzq".to_string()); sa.push("zzzzq".to_string()); }
                (PlainRule { targets: ta, sources: sa, command: c.clone() }, PlainRule { targets: tb, sources: sb, command: c.clone() })
            }
            else
            {
                let mut sa = s.clone(); sa.push("zz".to_string());
                let mut ca = vec![format!("{}{}", w, d)]; ca.extend(c.iter().cloned());
                let mut sb = s.clone(); sb.push(format!("zz{}", d)); sb.push(w.clone());
                (PlainRule { targets: t.clone(), sources: sa, command: ca }, PlainRule { targets: t.clone(), sources: sb, command: c.clone() })
            };
            PairCase { a, b, how: "separator shifted across a section boundary".to_string(), via_parser, shuffle }
        }),
    ]
}

pub fn test_case(c: &PairCase, stats: &mut Stats) -> Result<(), String>
{
    stats.class(&format!("how:{}", c.how));
    stats.class(if c.via_parser { "via-parser" } else { "via-Rule::new" });
    let same = canon(&c.a) == canon(&c.b);
    stats.class(if same { "same-meaning" } else { "different-meaning" });
    let nt = c.how != "independent" && (c.a != c.b || c.how == "identical");
    if nt
    {
        stats.nontrivial(drive::key_of(c));
    }
    stats.sample(nt && c.how != "identical", || json!(c));
    check(c)
}

pub fn run(ctx: &Ctx) -> Report
{
    let mut rep = Report::new("exploration",
        "proptest pairs: a random parser-producible rule and a near miss of it (string moved across a section boundary, command line split/merged \
         with and without the joining space, lists permuted, path renamed by one character, names with ':', ';' and spaces, names concatenated, \
         entry added/removed, repeated path line) plus independent pairs; each pair built either by Rule::new on shuffled lists or by rendering to \
         text and parsing. Non-trivial = a single-edit or pure-permutation pair; distinct by case hash");
    rep.assume("modulo SHA-256 collisions");
    rep.assume("strings obey the parser's invariants: non-empty, no newline/tab, not a lone ':'");
    let cases = ctx.tier.pick(40000u32, 600000);
    rep.absorb(drive::drive(ctx, 13, cases, strategy, test_case));
    rep
}

pub fn replay(_ctx: &Ctx, case: &serde_json::Value) -> Result<(), String>
{
    let c: PairCase = drive::parse_case(case)?;
    check(&c)
}
