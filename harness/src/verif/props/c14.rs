//! C14 — the rules-file parser is total and faithful to the documented format.

use std::collections::{BTreeMap, BTreeSet};

use proptest::prelude::*;
use serde::{Deserialize, Serialize};
use serde_json::json;

use crate::bundle;
use crate::rule::{self, ParseError, Rule};
use crate::verif::drive::{self, Ctx, Report, Stats};
use crate::verif::oracle::refparse::{self, BundleErr, RefErr, RefOut, RefRule};
use crate::verif::sched::XorShift;

#[derive(Clone, Debug, Serialize, Deserialize, PartialEq)]
pub struct PRule
{
    pub targets: Vec<Vec<String>>,
    pub sources: Vec<Vec<String>>,
    pub command: Vec<String>,
}

#[derive(Clone, Debug, Serialize, Deserialize, PartialEq)]
pub struct Fmt
{
    pub bundle: bool,
    pub perm: u64,
    pub repeat_entry: bool,
    pub repeat_dir: bool,
    pub blank_between: u8,
    pub leading_blank: u8,
    pub trailing_blank: u8,
    pub final_newline: bool,
    pub files: u8,
    /// with `bundle`: some paths of a section are written flat (dir/file) next to the bundles, sometimes the same path in both spellings
    #[serde(default)]
    pub mix_flat: bool,
}

#[derive(Clone, Debug, Serialize, Deserialize, PartialEq)]
pub enum Corruption
{
    None,
    DeleteLine(u16),
    InsertBlank(u16),
    InsertColon(u16),
    Truncate(u16, bool),
    OverIndent(u16),
    FileAndDir(u16),
    DuplicateLineIndented(u16),
}

#[derive(Clone, Debug, Serialize, Deserialize, PartialEq)]
pub enum Case
{
    Rendered { rules: Vec<PRule>, fmt: Fmt, corruption: Corruption },
    Soup { files: Vec<String> },
    /// a saved libFuzzer input (hex): split at 0xff into files, lossy UTF-8
    FuzzBytes { hex: String },
}

fn perm<T: Clone>(v: &[T], seed: u64) -> Vec<T>
{
    let mut out = v.to_vec();
    if seed == 0
    {
        return out;
    }
    let mut r = XorShift::new(seed);
    for i in (1..out.len()).rev()
    {
        let j = r.below((i + 1) as u64) as usize;
        out.swap(i, j);
    }
    out
}

#[derive(Default)]
struct Tree
{
    kids: BTreeMap<String, Tree>,
}

fn render_tree(t: &Tree, depth: usize, seed: u64, repeat_dir: bool, out: &mut Vec<String>)
{
    let names: Vec<&String> = t.kids.keys().collect();
    for name in perm(&names, seed.wrapping_add(depth as u64))
    {
        let k = &t.kids[name];
        let times = if repeat_dir && !k.kids.is_empty() && depth == 0 { 2 } else { 1 };
        for rep in 0..times
        {
            out.push(format!("{}{}", "\t".repeat(depth), name));
            if !k.kids.is_empty()
            {
                render_tree(k, depth + 1, seed.wrapping_add(rep as u64 * 13), false, out);
            }
        }
    }
}

fn render_section(paths: &[Vec<String>], f: &Fmt, salt: u64) -> Vec<String>
{
    let seed = if f.perm == 0 { 0 } else { f.perm.wrapping_add(salt) };
    let mut lines = vec![];
    if f.bundle
    {
        let mut root = Tree::default();
        let mut flat_lines: Vec<String> = vec![];
        for (k, p) in paths.iter().enumerate()
        {
            if f.mix_flat && p.len() >= 2 && (seed.wrapping_add(k as u64 * 31) % 3 != 0 || f.repeat_entry)
            {
                // this path is (also) written flat
                flat_lines.push(p.join("/"));
                if !(f.repeat_entry && k % 2 == 0)
                {
                    continue;
                }
            }
            let mut cur = &mut root;
            for c in p
            {
                cur = cur.kids.entry(c.clone()).or_default();
            }
        }
        render_tree(&root, 0, seed, f.repeat_dir, &mut lines);
        // flat lines go before or after the bundles
        if seed % 2 == 0 { lines.extend(flat_lines); } else { flat_lines.extend(lines); lines = flat_lines; }
    }
    else
    {
        for p in perm(paths, seed)
        {
            lines.push(p.join("/"));
        }
    }
    if f.repeat_entry && !lines.is_empty()
    {
        // repeat a leaf line verbatim right after itself (same directory level)
        let leafs: Vec<usize> = (0..lines.len()).filter(|i|
        {
            let lvl = lines[*i].chars().take_while(|c| *c == '\t').count();
            *i + 1 == lines.len() || lines[*i + 1].chars().take_while(|c| *c == '\t').count() <= lvl
        }).collect();
        if !leafs.is_empty()
        {
            let i = leafs[(salt as usize) % leafs.len()];
            let l = lines[i].clone();
            if !f.bundle && lines.len() >= 2 && salt % 3 != 0
            {
                // a flat list: the repetition may stand anywhere, not only next to the original
                let at = ((salt / 3) as usize) % (lines.len() + 1);
                lines.insert(at, l);
            }
            else
            {
                lines.insert(i + 1, l);
            }
        }
    }
    lines
}

fn render_rule(r: &PRule, f: &Fmt, salt: u64) -> Vec<String>
{
    let mut lines = render_section(&r.targets, f, salt * 2 + 1);
    lines.push(":".to_string());
    lines.extend(render_section(&r.sources, f, salt * 2 + 2));
    lines.push(":".to_string());
    lines.extend(r.command.iter().cloned());
    lines.push(":".to_string());
    lines
}

/// renders the rule set into `files` texts (rules dealt round-robin)
fn render(rules: &[PRule], f: &Fmt) -> Vec<String>
{
    let nfiles = (f.files.max(1) as usize).min(3);
    let mut texts = vec![];
    for fi in 0..nfiles
    {
        let mut lines: Vec<String> = vec![];
        for _ in 0..f.leading_blank
        {
            lines.push(String::new());
        }
        let mine: Vec<(usize, &PRule)> = rules.iter().enumerate().filter(|(i, _)| i % nfiles == fi).collect();
        for (k, (i, r)) in mine.iter().enumerate()
        {
            if k > 0
            {
                for _ in 0..f.blank_between.max(1)
                {
                    lines.push(String::new());
                }
            }
            lines.extend(render_rule(r, f, *i as u64));
        }
        for _ in 0..f.trailing_blank
        {
            lines.push(String::new());
        }
        let mut text = lines.join("\n");
        if f.final_newline && !lines.is_empty()
        {
            text.push('\n');
        }
        texts.push(text);
    }
    texts
}

fn corrupt(text: &str, c: &Corruption) -> String
{
    let mut lines: Vec<String> = text.split('\n').map(|s| s.to_string()).collect();
    let n = lines.len();
    let at = |k: &u16| crate::verif::gen::pick(*k, n);
    match c
    {
        Corruption::None => return text.to_string(),
        Corruption::DeleteLine(k) => { lines.remove(at(k)); }
        Corruption::InsertBlank(k) => { lines.insert(at(k), String::new()); }
        Corruption::InsertColon(k) => { lines.insert(at(k), ":".to_string()); }
        Corruption::Truncate(k, nl) =>
        {
            lines.truncate(at(k));
            let mut t = lines.join("\n");
            if *nl && !lines.is_empty() { t.push('\n'); }
            return t;
        }
        Corruption::OverIndent(k) => { let i = at(k); lines[i] = format!("\t{}", lines[i]); }
        Corruption::FileAndDir(k) =>
        {
            // give the line a child: the same name is now a directory here; and add the plain name again after it
            let i = at(k);
            let lvl = lines[i].chars().take_while(|c| *c == '\t').count();
            let name = lines[i].clone();
            lines.insert(i + 1, format!("{}child", "\t".repeat(lvl + 1)));
            lines.insert(i + 2, name);
        }
        Corruption::DuplicateLineIndented(k) =>
        {
            let i = at(k);
            let l = format!("\t\t{}", lines[i]);
            lines.insert(i + 1, l);
        }
    }
    lines.join("\n")
}

use crate::verif::oracle::parse_check::{check_texts, compare_rules, file_name};

pub fn fuzz_parts(data: &[u8]) -> Vec<String>
{
    data.split(|b| *b == 0xff).take(3).map(|p| String::from_utf8_lossy(p).to_string()).collect()
}

pub fn check(c: &Case) -> Result<(), String>
{
    match c
    {
        Case::Soup { files } => check_texts(files),
        Case::FuzzBytes { hex } => check_texts(&fuzz_parts(&crate::verif::fuzzrun::unhex(hex))),
        Case::Rendered { rules, fmt, corruption } =>
        {
            let texts = render(rules, fmt);
            if *corruption == Corruption::None
            {
                // (a) faithful: exactly the written rules
                let input: Vec<(String, String)> = texts.iter().enumerate().map(|(i, t)| (file_name(i), t.clone())).collect();
                let got = match std::panic::catch_unwind(|| rule::parse_all(input))
                {
                    Ok(r) => r,
                    Err(_) => return Err(format!("parser panicked on {:?}", texts)),
                };
                let got = got.map_err(|e| format!("well-formed rendering rejected with {:?}: {:?}", e, texts))?;
                let nfiles = (fmt.files.max(1) as usize).min(3);
                let mut want = vec![];
                for fi in 0..nfiles
                {
                    for (i, r) in rules.iter().enumerate()
                    {
                        if i % nfiles == fi
                        {
                            want.push(RefRule
                            {
                                targets: r.targets.iter().map(|p| p.join("/")).collect(),
                                sources: r.sources.iter().map(|p| p.join("/")).collect(),
                                command: r.command.clone(),
                            });
                        }
                    }
                }
                compare_rules(&got, &want).map_err(|m| format!("{} in {:?}", m, texts))?;
                // canonical order: a different line order gives identical vectors
                let mut f2 = fmt.clone();
                f2.perm = fmt.perm.wrapping_mul(6364136223846793005).wrapping_add(1442695040888963407) | 1;
                let texts2 = render(rules, &f2);
                let input2: Vec<(String, String)> = texts2.iter().enumerate().map(|(i, t)| (file_name(i), t.clone())).collect();
                let got2 = rule::parse_all(input2).map_err(|e| format!("re-ordered rendering rejected with {:?}: {:?}", e, texts2))?;
                if got2 != got
                {
                    return Err(format!("path order depends on line order: {:?} vs {:?}", texts, texts2));
                }
                // and the harness's own reference agrees on the same text
                check_texts(&texts)
            }
            else
            {
                // (b) corrupt the first file only
                let mut texts = texts;
                texts[0] = corrupt(&texts[0], corruption);
                check_texts(&texts)
            }
        }
    }
}

fn component() -> impl Strategy<Value = String>
{
    prop_oneof![
        8 => "[a-c]{1,2}",
        1 => Just("a b".to_string()),
        1 => Just("x:y".to_string()),
        1 => Just("é".to_string()),
        1 => Just("a.c".to_string()),
        1 => Just("-".to_string()),
        1 => Just(";".to_string()),
    ]
}

fn path_set() -> impl Strategy<Value = Vec<Vec<String>>>
{
    proptest::collection::vec(proptest::collection::vec(component(), 1..=3), 1..=5).prop_map(|mut ps|
    {
        ps.sort();
        ps.dedup();
        // no path may be a directory prefix of another (a name is a file or a directory)
        let snapshot = ps.clone();
        ps.retain(|p| !snapshot.iter().any(|q| q.len() > p.len() && q[..p.len()] == p[..]));
        ps
    })
}

fn command_line() -> impl Strategy<Value = String>
{
    prop_oneof![
        6 => "[a-d]{1,5}( [a-d-]{1,4}){0,2}",
        1 => Just(";".to_string()),
        1 => Just("\tindented".to_string()),
        1 => Just("a : b".to_string()),
        1 => Just(" ".to_string()),
    ]
}

fn prule() -> impl Strategy<Value = PRule>
{
    (path_set(), path_set(), proptest::collection::vec(command_line(), 0..4)).prop_map(|(targets, sources, command)| PRule { targets, sources, command })
}

fn fmt() -> impl Strategy<Value = Fmt>
{
    (any::<bool>(), prop_oneof![1 => Just(0u64), 3 => any::<u64>()], any::<bool>(), any::<bool>(), 1u8..=3, 0u8..=2, 0u8..=2, any::<bool>(), 1u8..=3, prop_oneof![2 => Just(false), 1 => Just(true)])
        .prop_map(|(bundle, perm, repeat_entry, repeat_dir, blank_between, leading_blank, trailing_blank, final_newline, files, mix_flat)|
            Fmt { bundle, perm, repeat_entry, repeat_dir, blank_between, leading_blank, trailing_blank, final_newline, files, mix_flat })
}

fn corruption() -> impl Strategy<Value = Corruption>
{
    prop_oneof![
        any::<u16>().prop_map(Corruption::DeleteLine),
        any::<u16>().prop_map(Corruption::InsertBlank),
        any::<u16>().prop_map(Corruption::InsertColon),
        (any::<u16>(), any::<bool>()).prop_map(|(k, nl)| Corruption::Truncate(k, nl)),
        any::<u16>().prop_map(Corruption::OverIndent),
        any::<u16>().prop_map(Corruption::FileAndDir),
        any::<u16>().prop_map(Corruption::DuplicateLineIndented),
    ]
}

fn soup() -> impl Strategy<Value = String>
{
    proptest::collection::vec(prop_oneof![
        5 => Just("\n"), 3 => Just("\t"), 4 => Just(":"), 1 => Just(";"), 1 => Just(" "), 1 => Just("\r"), 3 => Just("a"), 2 => Just("b"), 1 => Just("é"), 1 => Just("/"),
        2 => Just("a\n:\nb\n:\nc\n:\n"), 1 => Just("d\n\te\n"),
    ], 0..40).prop_map(|v| v.concat())
}

pub fn strategy() -> impl Strategy<Value = Case>
{
    prop_oneof![
        3 => (proptest::collection::vec(prule(), 0..5), fmt()).prop_map(|(rules, fmt)| Case::Rendered { rules, fmt, corruption: Corruption::None }),
        3 => (proptest::collection::vec(prule(), 1..4), fmt(), corruption()).prop_map(|(rules, fmt, corruption)| Case::Rendered { rules, fmt, corruption }),
        4 => proptest::collection::vec(soup(), 1..=2).prop_map(|files| Case::Soup { files }),
    ]
}

/// strings lifted from the project's own parser and bundle tests (also the fuzz seeds)
pub fn golden() -> Vec<String>
{
    vec![
        "", "a\n:\nb\n:\nc\n:\n", "a\n:\nb\n:\nc\n:\n\nd\n:\ne\n:\nf\n:\n", "build\n\tmath.o\n:\ncpp\n\tmath.cpp\n\tmath.h\n:\nc++ -c math.cpp -o build/math.o\n:\n",
        "\n\na\n:\nb\n:\nc\n:\n", "a\n:\nb\n:\nc\n:", "a", "a\n", "a\n:\nb\n:\nc\n:\n\nd\n:\ne\n:\nf\n:\n\nt\n", "a\n:\nb\n:\nc\n:\n\nd\n:\ne\n:\nf\n:\n\nt",
        "a\n:\nb\n\n:\nc\n:\n", "a\n:\nb\n:\nc\n\n:\n", ":\n", "a\n:\n:\nc\n:\n", "a\n\tb\n\t\tc\n:\ns\n:\nx\n:\n", "a\n\t\tb\n:\ns\n:\nx\n:\n", "a\na\n:\ns\n:\nx\n:\n",
        "d\n\tx\nd\n\ty\n:\ns\n:\nx\n:\n", "d\n\tx\nd\n:\ns\n:\nx\n:\n", "\t\n:\ns\n:\nx\n:\n", "a\r\n:\r\nb\r\n:\r\nc\r\n:\r\n",
    ].into_iter().map(|s| s.to_string()).collect()
}

fn classify(c: &Case, stats: &mut Stats) -> bool
{
    match c
    {
        Case::FuzzBytes { .. } => { stats.class("fuzz-input"); true }
        Case::Soup { files } =>
        {
            stats.class("soup");
            let r = refparse::parse(&files[0]);
            if r.open { stats.class("soup-open-shape"); }
            else if r.result.is_ok() { stats.class("soup-wellformed"); }
            else { stats.class("soup-malformed"); }
            files.iter().any(|f| f.matches('\n').count() >= 3)
        }
        Case::Rendered { rules, fmt, corruption } =>
        {
            let corrupted = *corruption != Corruption::None;
            stats.class(if corrupted { "rendered-corrupted" } else { "rendered-faithful" });
            if fmt.bundle { stats.class("bundled"); }
            if fmt.files > 1 { stats.class("multi-file"); }
            if fmt.repeat_entry { stats.class("repeated-entry"); }
            if fmt.repeat_dir && fmt.bundle { stats.class("repeated-directory"); }
            if fmt.mix_flat && fmt.bundle { stats.class("flat-and-bundled-mixed"); }
            let deep = rules.iter().any(|r| r.targets.iter().chain(r.sources.iter()).any(|p| p.len() >= 3));
            if deep && fmt.bundle { stats.class("bundle-nesting>=2"); }
            if corrupted
            {
                let texts = render(rules, fmt);
                let t = corrupt(&texts[0], corruption);
                match refparse::parse(&t).result
                {
                    Ok(_) => stats.class("corruption-still-wellformed"),
                    Err(RefErr::Bundle(_)) => stats.class("corruption->bundle-error"),
                    Err(RefErr::EmptyLine(_)) => stats.class("corruption->empty-line"),
                    Err(RefErr::ExtraColon(_)) => stats.class("corruption->extra-colon"),
                    Err(_) => stats.class("corruption->eof"),
                }
            }
            rules.len() >= 2 && ((deep && fmt.bundle) || fmt.repeat_entry || fmt.files > 1 || corrupted)
        }
    }
}

pub fn test_case(c: &Case, stats: &mut Stats) -> Result<(), String>
{
    let nt = classify(c, stats);
    if nt
    {
        stats.nontrivial(drive::key_of(c));
    }
    stats.sample(nt, || match c
    {
        Case::Rendered { rules, fmt, corruption } => { let mut t = render(rules, fmt); t[0] = corrupt(&t[0], corruption); json!({"texts": t, "corruption": format!("{:?}", corruption)}) }
        Case::Soup { files } => json!({"soup": files}),
        Case::FuzzBytes { hex } => json!({"fuzz_input_hex": hex}),
    });
    check(c)
}

pub fn run(ctx: &Ctx) -> Report
{
    let mut rep = Report::new("exploration",
        "proptest: (a) random rule sets rendered under every formatting choice (flat/bundled with nesting, repeated identical entries and directories, \
         leading/trailing/multiple blank lines, final newline or not, 1-3 files through parse_all); (b) single-edit corruptions of (a) (delete line, insert \
         blank line, insert ':', truncate at every line, over-indent, name both file and directory); (c) token soup over newline, tab, ':', ';', space, CR, \
         letters, non-ASCII; plus the strings of the project's own parser tests. Oracle: independent reference parser (oracle/refparse.rs): exact rules, \
         exact error kind/file/line. Non-trivial = >=2 rules and one of {bundle nesting>=2, repeated entry, multi-file, corruption applied} (soup: >=3 lines); \
         distinct by case hash");
    rep.assume("shapes the format leaves open (CR characters, an empty sources section, tab-only lines) are checked for totality, file name and line range only");
    let gold: Vec<Case> = golden().into_iter().map(|s| Case::Soup { files: vec![s] }).collect();
    rep.absorb(drive::drive_list(ctx, gold, |c, st| test_case(c, st)));
    let cases = ctx.tier.pick(40000u32, 800000);
    rep.absorb(drive::drive(ctx, 14, cases, strategy, test_case));
    if ctx.tier == crate::verif::drive::Tier::Thorough
    {
        let o = crate::verif::fuzzrun::run_target(ctx, "parse", 2_000_000, 8, 512);
        crate::verif::fuzzrun::record(&mut rep.stats, &o, "parse");
        rep.stats.evaluations += o.runs;
        for c in o.crashes.iter()
        {
            let case = Case::FuzzBytes { hex: crate::verif::fuzzrun::hex(c) };
            match crate::verif::sched::catch_quiet(|| check(&case))
            {
                Ok(Ok(())) => { rep.stats.class("libfuzzer-crash-not-confirmed-in-process"); eprintln!("libFuzzer saved an input that the in-process oracle accepts; not reported"); }
                Ok(Err(m)) => rep.failures.push(drive::Failure { reason: m, case: json!(case) }),
                Err(m) => rep.failures.push(drive::Failure { reason: format!("panic in the code under test: {}", m), case: json!(case) }),
            }
        }
    }
    rep
}

pub fn replay(_ctx: &Ctx, case: &serde_json::Value) -> Result<(), String>
{
    let c: Case = drive::parse_case(case)?;
    check(&c)
}
