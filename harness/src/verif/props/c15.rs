//! C15 — content hashes are true SHA-256 of the bytes and their text form is a bijection.

use proptest::prelude::*;
use serde::{Deserialize, Serialize};
use serde_json::json;

use crate::ticket::{Ticket, TicketFactory};
use crate::verif::b62;
use crate::verif::drive::{self, Ctx, Report, Stats};
use crate::verif::sched::XorShift;
use crate::verif::sha256::sha256;
use crate::verif::vsys::{Clock, VerifSystem};

#[derive(Clone, Debug, Serialize, Deserialize, PartialEq)]
pub enum Case
{
    /// file of `len` bytes: fill 0 = random(seed), 1 = zeros, 2 = 0xff; read in chunks
    File { len: u32, fill: u8, seed: u64, chunks: Vec<u16>, depth: u8 },
    /// a 256-bit value (hex, 64 chars)
    Value { hex: String },
    /// an arbitrary string offered to the decoder
    Text { s: String },
    /// a directory tree: entries (path components index, content index), and a point change
    Tree { entries: Vec<(u8, u8, u8)>, change: u8, pick: u16, order_seed: u64 },
    /// a saved libFuzzer input of the decode62 target (hex)
    FuzzBytes { hex: String },
    /// a directory on the real file system, hashed by the built binary
    RealTree { root: String, files: Vec<(String, String)> },
}

fn fill_bytes(len: usize, fill: u8, seed: u64) -> Vec<u8>
{
    match fill
    {
        1 => vec![0u8; len],
        2 => vec![0xffu8; len],
        _ =>
        {
            let mut r = XorShift::new(seed);
            (0..len).map(|_| (r.next() >> 24) as u8).collect()
        }
    }
}

fn ticket_bytes(t: &Ticket) -> Vec<u8>
{
    bincode::serialize(t).unwrap_or_default()
}

fn hexval(h: &str) -> [u8; 32]
{
    let mut out = [0u8; 32];
    for i in 0..32
    {
        out[i] = u8::from_str_radix(&h[2 * i..2 * i + 2], 16).unwrap_or(0);
    }
    out
}

fn check_file(len: u32, fill: u8, seed: u64, chunks: &[u16], depth: u8) -> Result<(), String>
{
    let data = fill_bytes(len as usize, fill, seed);
    let want = b62::encode(&sha256(&data));
    let sys = VerifSystem::new(Clock::Distinct);
    let dir = match depth % 3 { 0 => "".to_string(), 1 => "a/".to_string(), _ => "a/b/c/".to_string() };
    if !dir.is_empty()
    {
        sys.h_mkdir_all(dir.trim_end_matches('/'));
    }
    let p1 = format!("{}f.bin", dir);
    let p2 = format!("{}other-name", dir);
    sys.h_write(&p1, &data);
    sys.tick();
    sys.tick();
    sys.h_write(&p2, &data);
    sys.lock().read_chunks = chunks.iter().map(|c| *c as usize).collect();
    for p in [&p1, &p2]
    {
        let got = match TicketFactory::from_file(&sys, p)
        {
            Ok(mut f) => f.result().human_readable(),
            Err(e) => return Err(format!("hashing a {}-byte file failed: {}", len, e)),
        };
        if got != want
        {
            return Err(format!("file of {} bytes (fill {}, chunks {:?}, path {}) hashed to {}, SHA-256 text form is {}", len, fill, chunks, p, got, want));
        }
        // through the path dispatcher as well
        let got2 = match TicketFactory::from_path(&sys, p)
        {
            Ok(mut f) => f.result().human_readable(),
            Err(e) => return Err(format!("from_path failed: {}", e)),
        };
        if got2 != want
        {
            return Err(format!("from_path gives {}, expected {}", got2, want));
        }
    }
    Ok(())
}

fn check_value(hex: &str) -> Result<(), String>
{
    let v = hexval(hex);
    let s = b62::encode(&v);
    let t = match Ticket::from_human_readable(&s)
    {
        Ok(t) => t,
        Err(e) => return Err(format!("the text form {} of value {} is rejected: {:?}", s, hex, e)),
    };
    if ticket_bytes(&t) != v.to_vec()
    {
        return Err(format!("text form {} decodes to {:?}, expected {}", s, ticket_bytes(&t), hex));
    }
    let back = t.human_readable();
    if back != s
    {
        return Err(format!("value {} encodes to {}, reference text form is {}", hex, back, s));
    }
    Ok(())
}

fn check_text(s: &str) -> Result<(), String>
{
    let want = b62::decode(s);
    match (Ticket::from_human_readable(s), want)
    {
        (Ok(t), Ok(v)) =>
        {
            if ticket_bytes(&t) != v.to_vec()
            {
                return Err(format!("{:?} decodes to the wrong value", s));
            }
            if t.human_readable() != s
            {
                return Err(format!("{:?} is accepted but re-encodes to {:?}", s, t.human_readable()));
            }
            Ok(())
        }
        (Err(_), Err(_)) => Ok(()),
        (Ok(_), Err(e)) => Err(format!("{:?} is not a valid encoding ({:?}) but was accepted", s, e)),
        (Err(e), Ok(_)) => Err(format!("{:?} is a valid encoding but was rejected: {:?}", s, e)),
    }
}

const DIRS: [&str; 4] = ["", "x", "y", "x/z"];
const NAMES: [&str; 5] = ["a", "b", "c", "dd", "e.txt"];
const CONTENTS: [&str; 4] = ["", "one", "two", "three"];

fn build_tree(sys: &VerifSystem, root: &str, files: &[(String, String)], order_seed: u64)
{
    let mut order: Vec<usize> = (0..files.len()).collect();
    let mut r = XorShift::new(order_seed);
    for i in (1..order.len()).rev()
    {
        let j = r.below((i + 1) as u64) as usize;
        order.swap(i, j);
    }
    sys.h_mkdir_all(root);
    for i in order
    {
        let (p, c) = &files[i];
        let full = format!("{}/{}", root, p);
        if let Some(pos) = full.rfind('/')
        {
            sys.h_mkdir_all(&full[..pos]);
        }
        sys.h_write(&full, c.as_bytes());
        sys.tick();
    }
}

fn dir_hash(sys: &VerifSystem, root: &str) -> Result<String, String>
{
    match TicketFactory::from_directory(sys, root)
    {
        Ok(mut f) => Ok(f.result().human_readable()),
        Err(e) => Err(format!("hashing directory failed: {}", e)),
    }
}

fn check_tree(entries: &[(u8, u8, u8)], change: u8, pick: u16, order_seed: u64) -> Result<(), String>
{
    let mut files: Vec<(String, String)> = vec![];
    for (d, n, c) in entries
    {
        let dir = DIRS[*d as usize % 4];
        let name = NAMES[*n as usize % 5];
        let p = if dir.is_empty() { name.to_string() } else { format!("{}/{}", dir, name) };
        // a name cannot be both a file and a directory
        if DIRS.iter().any(|dd| *dd == p || dd.starts_with(&format!("{}/", p))) { continue; }
        if files.iter().any(|(q, _)| *q == p) { continue; }
        files.push((p, CONTENTS[*c as usize % 4].to_string()));
    }
    if files.is_empty()
    {
        files.push(("a".to_string(), "one".to_string()));
    }
    let s1 = VerifSystem::new(Clock::Distinct);
    let s2 = VerifSystem::new(Clock::Coarse);
    build_tree(&s1, "root", &files, 0);
    build_tree(&s2, "root", &files, order_seed);
    let h1 = dir_hash(&s1, "root")?;
    let h2 = dir_hash(&s2, "root")?;
    if h1 != h2
    {
        return Err(format!("equal trees built in different orders hash differently: {:?}", files));
    }
    // a single point change must change the hash
    let mut changed = files.clone();
    let i = crate::verif::gen::pick(pick, changed.len());
    let what = match change % 5
    {
        4 =>
        {
            // move bytes from the end of one file to the start of the next file in listing order:
            // names and the concatenation of all contents stay the same
            let mut order: Vec<usize> = (0..changed.len()).collect();
            order.sort_by(|a, b| changed[*a].0.cmp(&changed[*b].0));
            let mut moved = false;
            for w in order.windows(2)
            {
                let same_dir = changed[w[0]].0.rsplit_once('/').map(|x| x.0) == changed[w[1]].0.rsplit_once('/').map(|x| x.0);
                if same_dir && !changed[w[0]].1.is_empty()
                {
                    let tail = changed[w[0]].1.pop().unwrap();
                    changed[w[1]].1.insert(0, tail);
                    moved = true;
                    break;
                }
            }
            if !moved { changed[i].1.push('!'); }
            "bytes moved between two files"
        }
        0 => { changed[i].1.push('!'); "content changed" }
        1 =>
        {
            let newp = format!("{}_renamed", changed[i].0);
            changed[i].0 = newp;
            "name changed"
        }
        2 => { changed.push(("zz_added".to_string(), "".to_string())); "entry added" }
        _ =>
        {
            if changed.len() > 1 { changed.remove(i); "entry removed" }
            else { changed[i].1.push('!'); "content changed" }
        }
    };
    let s3 = VerifSystem::new(Clock::Distinct);
    build_tree(&s3, "root", &changed, order_seed.wrapping_add(1));
    let h3 = dir_hash(&s3, "root")?;
    if h3 == h1
    {
        return Err(format!("directory hash unchanged after {}: {:?} -> {:?}", what, files, changed));
    }
    Ok(())
}

/// The same tree on the real file system (entries in whatever order the OS lists them; hashed by the built binary) and in
/// memory (sorted listing): the hash may depend on names and contents only.
fn check_real_tree(root: &str, files: &[(String, String)]) -> Result<(), String>
{
    static N: std::sync::atomic::AtomicUsize = std::sync::atomic::AtomicUsize::new(0);
    let dir = std::env::temp_dir().join(format!("rv-hashdir-{}-{}", std::process::id(), N.fetch_add(1, std::sync::atomic::Ordering::SeqCst)));
    let _ = std::fs::remove_dir_all(&dir);
    let mut ok = true;
    for (p, c) in files.iter()
    {
        let full = dir.join(root).join(p);
        if let Some(parent) = full.parent() { ok &= std::fs::create_dir_all(parent).is_ok(); }
        ok &= std::fs::write(&full, c.as_bytes()).is_ok();
    }
    let s = VerifSystem::new(Clock::Distinct);
    build_tree(&s, root, files, 0);
    let want = dir_hash(&s, root);
    let out = if ok { std::env::current_exe().ok().and_then(|exe| std::process::Command::new(&exe).current_dir(&dir).arg("hash").arg(root).output().ok()) } else { None };
    let _ = std::fs::remove_dir_all(&dir);
    match (out, want)
    {
        (Some(o), Ok(want)) =>
        {
            let got = String::from_utf8_lossy(&o.stdout).trim().to_string();
            if got != want
            {
                return Err(format!("`hash {}` on a real directory of {} files printed {:?}; the same names and contents listed in sorted order hash to {}", root, files.len(), got, want));
            }
            Ok(())
        }
        // scratch directory or binary not usable: nothing to say
        _ => Ok(()),
    }
}

pub fn check(c: &Case) -> Result<(), String>
{
    match c
    {
        Case::File { len, fill, seed, chunks, depth } => check_file(*len, *fill, *seed, chunks, *depth),
        Case::Value { hex } => check_value(hex),
        Case::Text { s } => check_text(s),
        Case::Tree { entries, change, pick, order_seed } => check_tree(entries, *change, *pick, *order_seed),
        Case::RealTree { root, files } => check_real_tree(root, files),
        Case::FuzzBytes { hex } =>
        {
            let data = crate::verif::fuzzrun::unhex(hex);
            check_text(&String::from_utf8_lossy(&data))?;
            if data.len() >= 32 { check_value(&crate::verif::sha256::hex(&data[..32]))?; }
            Ok(())
        }
    }
}

fn hex_of(v: &[u8; 32]) -> String
{
    crate::verif::sha256::hex(v)
}

/// Edge values: 0, 1, 2^k, 2^k-1, 62^k-1, 62^k, 62^k+1, 2^256-1 (little-endian integers).
pub fn edge_values() -> Vec<[u8; 32]>
{
    let mut out: Vec<[u8; 32]> = vec![[0u8; 32], [0xffu8; 32]];
    for k in 0..256usize
    {
        let mut v = [0u8; 32];
        v[k / 8] = 1 << (k % 8);
        out.push(v);
        // 2^k - 1
        let mut w = [0u8; 32];
        for b in 0..k
        {
            w[b / 8] |= 1 << (b % 8);
        }
        out.push(w);
    }
    // powers of 62 by repeated multiplication (little-endian)
    let mut p = [0u8; 33];
    p[0] = 1;
    for _k in 0..43
    {
        if p[32] == 0
        {
            let mut v = [0u8; 32];
            v.copy_from_slice(&p[..32]);
            out.push(v);
            // +1 / -1
            let mut plus = v;
            for b in plus.iter_mut() { let (n, c) = b.overflowing_add(1); *b = n; if !c { break; } }
            out.push(plus);
            let mut minus = v;
            for b in minus.iter_mut() { let (n, c) = b.overflowing_sub(1); *b = n; if !c { break; } }
            out.push(minus);
        }
        let mut carry = 0u32;
        for b in p.iter_mut()
        {
            let cur = (*b as u32) * 62 + carry;
            *b = (cur & 0xff) as u8;
            carry = cur >> 8;
        }
    }
    out
}

fn text_strategy() -> impl Strategy<Value = String>
{
    let valid = proptest::collection::vec(any::<u8>(), 32).prop_map(|v| { let mut a = [0u8; 32]; a.copy_from_slice(&v); b62::encode(&a) });
    prop_oneof![
        3 => "[0-9a-zA-Z_\\-+/=. é✓]{0,60}",
        2 => "[0-9a-zA-Z]{40,46}",
        2 => "[0-9a-zA-Z]{43}",
        // mutations of valid encodings
        6 => (valid, any::<u16>(), 0u8..10, "[ -/:-@\\[-`{-~é✓\n\r\t\u{a0}\u{2028}]").prop_map(|(s, pos, kind, foreign)|
        {
            let mut chars: Vec<char> = s.chars().collect();
            let i = crate::verif::gen::pick(pos, chars.len());
            match kind
            {
                0 => { chars[i] = foreign.chars().next().unwrap_or('!'); }
                1 => { chars[42] = 'Z'; }                       // most significant digit raised: overflows
                2 => { chars.remove(i); }
                3 => { chars.insert(i, '0'); }
                4 => { chars[42] = 'Z'; chars[41] = 'Z'; chars[i] = 'Z'; }
                // a complete valid encoding with something before or after it (line endings, blanks, one more digit)
                6 => { chars.push(foreign.chars().next().unwrap_or(' ')); }
                7 => { chars.insert(0, foreign.chars().next().unwrap_or(' ')); }
                8 => { chars.push('\r'); chars.push('\n'); }
                9 => { chars.push('\n'); }
                _ => {}
            }
            chars.into_iter().collect()
        }),
    ]
}

pub fn strategy() -> impl Strategy<Value = Case>
{
    prop_oneof![
        3 => (0u32..70000, 0u8..3, any::<u64>(), proptest::collection::vec(1u16..600, 0..4), any::<u8>())
            .prop_map(|(len, fill, seed, chunks, depth)| Case::File { len, fill, seed, chunks, depth }),
        3 => (1101u32..4000, 0u8..3, any::<u64>(), proptest::collection::vec(1u16..300, 0..4), any::<u8>())
            .prop_map(|(len, fill, seed, chunks, depth)| Case::File { len, fill, seed, chunks, depth }),
        6 => proptest::collection::vec(any::<u8>(), 32).prop_map(|v| Case::Value { hex: crate::verif::sha256::hex(&v) }),
        10 => text_strategy().prop_map(|s| Case::Text { s }),
        4 => (proptest::collection::vec((any::<u8>(), any::<u8>(), any::<u8>()), 1..8), any::<u8>(), any::<u16>(), any::<u64>())
            .prop_map(|(entries, change, pick, order_seed)| Case::Tree { entries, change, pick, order_seed }),
    ]
}

fn nontrivial(c: &Case) -> bool
{
    match c
    {
        Case::File { len, chunks, .. } => len % 256 != 0 || !chunks.is_empty(),
        Case::Value { hex } => { let v = hexval(hex); b62::encode(&v).ends_with('0') }
        Case::Text { s } => s.len() >= 40 && s.len() <= 46,
        Case::Tree { .. } => true,
        Case::FuzzBytes { .. } => true,
        Case::RealTree { .. } => true,
    }
}

pub fn test_case(c: &Case, stats: &mut Stats) -> Result<(), String>
{
    let class = match c
    {
        Case::File { .. } => "file",
        Case::Value { .. } => "value",
        Case::Text { s } => if b62::decode(s).is_ok() { "text-valid" } else { match b62::decode(s) { Err(b62::DecodeErr::Length) => "text-bad-length", Err(b62::DecodeErr::Character) => "text-foreign-char", _ => "text-overflow" } },
        Case::Tree { .. } => "tree",
        Case::FuzzBytes { .. } => "fuzz-input",
        Case::RealTree { .. } => "real-fs-directory",
    };
    stats.class(class);
    let nt = nontrivial(c);
    if nt
    {
        stats.nontrivial(drive::key_of(c));
    }
    stats.sample(nt, || json!(c));
    check(c)
}

pub fn run(ctx: &Ctx) -> Report
{
    let mut rep = Report::new("exploration",
        "files of EVERY length 0..=1100 (random, all-zero, all-0xff) and random lengths to 70000 read through handles that return short reads, at \
         different paths/depths/mtimes; all edge 256-bit values (0, 2^k, 2^k-1, 62^k and neighbours, 2^256-1) and random values; strings of length \
         0..60 over an alphabet with non-alphanumerics and multi-byte characters plus mutations of valid encodings; random directory trees with one \
         point change. Oracle: harness's own SHA-256 and base-62. Non-trivial = file length not a multiple of 256 or short reads, value whose text \
         form has leading-zero (most significant) digits, string of near-valid length, any tree; distinct by case hash");
    rep.assume("modulo SHA-256 collisions");
    // every length 0..=1100, three fills
    let mut fixed: Vec<Case> = vec![];
    for len in 0..=1100u32
    {
        for fill in 0..3u8
        {
            let chunks: Vec<u16> = match (len + fill as u32) % 4 { 0 => vec![], 1 => vec![1, 255, 256], 2 => vec![7], _ => vec![256, 3, 100] };
            fixed.push(Case::File { len, fill, seed: len as u64 * 3 + fill as u64 + ctx.seed, chunks, depth: (len % 3) as u8 });
        }
    }
    for v in edge_values()
    {
        fixed.push(Case::Value { hex: hex_of(&v) });
    }
    // every string of length 43 whose top digits make it overflow or just fit: 2^256-1 and successors
    let max = b62::encode(&[0xffu8; 32]);
    fixed.push(Case::Text { s: max.clone() });
    let mut chars: Vec<u8> = max.bytes().collect();
    for i in 0..43
    {
        // raise digit i by one (if possible): the value exceeds 2^256-1
        let d = b62::ALPHABET.iter().position(|c| *c == chars[i]).unwrap();
        if d + 1 < 62
        {
            let save = chars[i];
            chars[i] = b62::ALPHABET[d + 1];
            fixed.push(Case::Text { s: String::from_utf8(chars.clone()).unwrap() });
            chars[i] = save;
        }
    }
    for s in ["", "0", "000000000000000000000000000000000000000000", "0000000000000000000000000000000000000000000", "00000000000000000000000000000000000000000000",
        "ZZZZZZZZZZZZZZZZZZZZZZZZZZZZZZZZZZZZZZZZZZZ", "../../../../../../../../../../../../etc/pwd", "%2e%2e%2fcurrent_file_states0000000000000000"]
    {
        fixed.push(Case::Text { s: s.to_string() });
    }
    rep.absorb(drive::drive_list(ctx, fixed, |c, st| test_case(c, st)));
    // the built binary on the real file system: `rv hash <path>`
    {
        let n = ctx.tier.pick(24usize, 300);
        let dir = std::env::temp_dir().join(format!("rv-hash-{}", std::process::id()));
        let _ = std::fs::remove_dir_all(&dir);
        let mut st = Stats::default();
        if std::fs::create_dir_all(dir.join("sub/deeper")).is_ok()
        {
            let exe = std::env::current_exe().unwrap();
            let mut r = XorShift::new(ctx.seed ^ 0x15);
            for i in 0..n
            {
                let len = match i % 4 { 0 => r.below(600), 1 => 255 + r.below(4), 2 => r.below(70000), _ => 256 * (1 + r.below(8)) } as usize;
                let data = fill_bytes(len, (i % 3) as u8, r.next());
                let rel = match i % 3 { 0 => format!("f{}", i), 1 => format!("sub/f{}", i), _ => format!("sub/deeper/f{}", i) };
                if std::fs::write(dir.join(&rel), &data).is_err() { continue; }
                st.evaluations += 1;
                st.count("realfs_hash_calls", 1);
                let out = std::process::Command::new(&exe).current_dir(&dir).arg("hash").arg(&rel).output();
                let want = b62::encode(&sha256(&data));
                match out
                {
                    Ok(o) =>
                    {
                        let got = String::from_utf8_lossy(&o.stdout).trim().to_string();
                        if got != want
                        {
                            rep.failures.push(drive::Failure { reason: format!("`hash {}` on a real file of {} bytes printed {:?}, SHA-256 text form is {}", rel, len, got, want),
                                case: json!(Case::File { len: len as u32, fill: (i % 3) as u8, seed: 0, chunks: vec![], depth: (i % 3) as u8 }) });
                        }
                        else if len % 256 != 0
                        {
                            st.nontrivial(drive::key_of(&(rel.clone(), len)));
                        }
                    }
                    Err(e) => eprintln!("cannot run {:?}: {}", exe, e),
                }
            }
            // directories
            let ntrees = ctx.tier.pick(8usize, 80);
            for k in 0..ntrees
            {
                let root = format!("tree{}", k);
                let mut files: Vec<(String, String)> = vec![];
                let count = 6 + r.below(14);
                for _ in 0..count
                {
                    let name = format!("{}{}", ["n", "x", "Zz", "a_", "m.", "0", ".h", ".", "~"][r.below(9) as usize], r.below(1000));
                    let sub = match r.below(6) { 0 => "sub/", 1 => "sub/deeper/", 2 => ".cfg/", 3 => "sub/.d/", _ => "" };
                    let p = format!("{}{}", sub, name);
                    if !files.iter().any(|(q, _)| *q == p) { files.push((p, format!("c{}", r.below(5)))); }
                }
                st.evaluations += 1;
                st.count("realfs_hash_dir_calls", 1);
                match check_real_tree(&root, &files)
                {
                    Ok(()) => st.nontrivial(drive::key_of(&(root.clone(), files.len()))),
                    Err(reason) => rep.failures.push(drive::Failure { reason, case: json!(Case::RealTree { root: root.clone(), files: files.clone() }) }),
                }
            }
            let _ = std::fs::remove_dir_all(&dir);
        }
        rep.stats.merge(st);
    }
    let cases = ctx.tier.pick(60000u32, 1200000);
    rep.absorb(drive::drive(ctx, 15, cases, strategy, test_case));
    if ctx.tier == crate::verif::drive::Tier::Thorough
    {
        let o = crate::verif::fuzzrun::run_target(ctx, "decode62", 4_000_000, 8, 128);
        crate::verif::fuzzrun::record(&mut rep.stats, &o, "decode62");
        rep.stats.evaluations += o.runs;
        for c in o.crashes.iter()
        {
            let case = Case::FuzzBytes { hex: crate::verif::fuzzrun::hex(c) };
            match crate::verif::sched::catch_quiet(|| check(&case))
            {
                Ok(Ok(())) => { rep.stats.class("libfuzzer-crash-not-confirmed-in-process"); eprintln!("libFuzzer saved an input that the in-process oracle accepts; not reported"); }
                Ok(Err(m)) => rep.failures.push(drive::Failure { reason: m, case: json!(case) }),
                Err(m) => rep.failures.push(drive::Failure { reason: format!("panic in the code under test: {}", m), case: json!(case) }),
            }
        }
    }
    rep
}

pub fn replay(_ctx: &Ctx, case: &serde_json::Value) -> Result<(), String>
{
    let c: Case = drive::parse_case(case)?;
    check(&c)
}
