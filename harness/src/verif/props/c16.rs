//! C16 — saved state round-trips exactly and damaged state is rejected, not misread.

use proptest::prelude::*;
use serde::{Deserialize, Serialize};
use serde_json::json;

use crate::blob::{FileState, FileStateVec};
use crate::current::CurrentFileStates;
use crate::history::{History, RuleHistory};
use crate::ticket::{Ticket, TicketFactory};
use crate::verif::b62;
use crate::verif::drive::{self, Ctx, Report, Stats};
use crate::verif::sched::XorShift;
use crate::verif::vsys::{Clock, VerifSystem};

#[derive(Clone, Debug, Serialize, Deserialize, PartialEq)]
pub enum Case
{
    /// rule history: `entries` source tickets, each with `targets` target tickets (seeds)
    History { entries: Vec<u32>, targets: u8, rule_seed: u32, flips: bool },
    /// file-state table: (path index, ticket seed, timestamp, executable)
    Table { entries: Vec<(u16, u32, u64, bool)>, flips: bool },
    /// arbitrary bytes offered to both decoders
    Bytes { data: Vec<u8> },
    /// a valid history file with its leading length field replaced
    HugeCount { entries: Vec<u32>, targets: u8, count: u64, which: u8 },
    /// a saved libFuzzer input of the state target (hex)
    FuzzBytes { hex: String },
}

fn ticket(seed: u32) -> Ticket
{
    let mut v = [0u8; 32];
    let mut r = XorShift::new(seed as u64 + 77);
    for b in v.iter_mut()
    {
        *b = (r.next() >> 16) as u8;
    }
    Ticket::from_human_readable(&b62::encode(&v)).expect("valid encoding")
}

fn make_history(entries: &[u32], targets: u8) -> RuleHistory
{
    let mut rh = RuleHistory::new();
    for e in entries
    {
        let tv: Vec<Ticket> = (0..targets.max(1) as u32).map(|k| ticket(e.wrapping_mul(16).wrapping_add(k))).collect();
        let _ = rh.insert(ticket(*e), FileStateVec::from_ticket_vec(tv));
    }
    rh
}

const HIST_DIR: &str = "h";

fn guarded<T>(what: &str, f: impl FnOnce() -> T) -> Result<T, String>
{
    match std::panic::catch_unwind(std::panic::AssertUnwindSafe(f))
    {
        Ok(v) => Ok(v),
        Err(_) => Err(format!("panic while {}", what)),
    }
}

fn read_history_bytes(bytes: &[u8]) -> Result<Result<RuleHistory, String>, String>
{
    let sys = VerifSystem::new(Clock::Distinct);
    sys.h_mkdir_all(HIST_DIR);
    let rt = ticket(1);
    sys.h_write(&format!("{}/{}", HIST_DIR, rt.human_readable()), bytes);
    let h = History::new(sys.clone(), HIST_DIR);
    guarded("reading a rule-history file", move || h.read_rule_history(&rt).map_err(|e| format!("{}", e)))
}

fn read_table_bytes(bytes: &[u8]) -> Result<Result<Vec<(String, FileState)>, String>, String>
{
    let sys = VerifSystem::new(Clock::Distinct);
    sys.h_write("table", bytes);
    let paths = table_paths();
    guarded("reading a file-state table", move ||
    {
        match CurrentFileStates::from_file(sys.clone(), "table".to_string())
        {
            Ok(mut t) =>
            {
                let blob = t.take_blob(paths.clone());
                Ok(blob.get_file_infos().into_iter().map(|i| (i.path, i.file_state)).collect())
            }
            Err(e) => Err(format!("{}", e)),
        }
    })
}

fn table_paths() -> Vec<String>
{
    (0..24).map(|i| match i % 4 { 0 => format!("t{}", i), 1 => format!("dir/t{}", i), 2 => format!("a b/ü{}", i), _ => format!("x{}.o", i) }).collect()
}

fn check_prefixes_and_flips(valid: &[u8], flips: bool, read: &dyn Fn(&[u8]) -> Result<bool, String>, what: &str, stats: &mut Stats) -> Result<(), String>
{
    for n in 0..valid.len()
    {
        stats.count("prefixes", 1);
        if read(&valid[..n])?
        {
            return Err(format!("a strict prefix ({} of {} bytes) of a valid {} was accepted", n, valid.len(), what));
        }
    }
    if flips && valid.len() <= 400
    {
        let mut b = valid.to_vec();
        for i in 0..b.len()
        {
            for bit in 0..8
            {
                b[i] ^= 1 << bit;
                stats.count("bit_flips", 1);
                // Err, or a well-formed different value; never a panic (guarded inside read)
                let _ = read(&b)?;
                b[i] ^= 1 << bit;
            }
        }
    }
    Ok(())
}

pub fn check(c: &Case, stats: &mut Stats) -> Result<(), String>
{
    match c
    {
        Case::History { entries, targets, rule_seed, flips } =>
        {
            let rh = make_history(entries, *targets);
            let sys = VerifSystem::new(Clock::Distinct);
            sys.h_mkdir_all(HIST_DIR);
            let rt = ticket(*rule_seed);
            let mut h = History::new(sys.clone(), HIST_DIR);
            let rh2 = rh.clone();
            let rt2 = rt.clone();
            guarded("writing a rule history", move || h.write_rule_history(rt2, rh2).map_err(|e| format!("{}", e)))?.map_err(|e| format!("write failed: {}", e))?;
            // the next invocation: a fresh History object on the same file system
            let h2 = History::new(sys.clone(), HIST_DIR);
            let rt3 = rt.clone();
            let back = guarded("reading a rule history", move || h2.read_rule_history(&rt3).map_err(|e| format!("{}", e)))?;
            match back
            {
                Ok(b) => if b != rh { return Err("rule history read back differs from what was written".to_string()); },
                Err(e) => return Err(format!("a freshly written rule history cannot be read: {}", e)),
            }
            // a rule that was never written reads as empty
            let h3 = History::new(sys.clone(), HIST_DIR);
            match h3.read_rule_history(&ticket(rule_seed.wrapping_add(1)))
            {
                Ok(b) => if b != RuleHistory::new() { return Err("unknown rule has non-empty history".to_string()); },
                Err(e) => return Err(format!("unknown rule: {}", e)),
            }
            let bytes = sys.h_read(&format!("{}/{}", HIST_DIR, rt.human_readable())).ok_or("history file not where the documentation says (history/<rule ticket>)")?;
            check_prefixes_and_flips(&bytes, *flips, &|b| Ok(read_history_bytes(b)?.is_ok()), "rule-history file", stats)
        }
        Case::Table { entries, flips } =>
        {
            let sys = VerifSystem::new(Clock::Distinct);
            let paths = table_paths();
            let mut want: std::collections::BTreeMap<String, FileState> = std::collections::BTreeMap::new();
            {
                let sys2 = sys.clone();
                let mut t = guarded("creating a table", move || CurrentFileStates::from_file(sys2, "table".to_string()).map_err(|e| format!("{}", e)))?.map_err(|e| format!("cannot create table: {}", e))?;
                for (p, ts, time, exec) in entries
                {
                    let path = paths[crate::verif::gen::pick(*p, paths.len())].clone();
                    let fs = FileState { ticket: ticket(*ts), timestamp: *time, executable: *exec };
                    t.insert_file_state(path.clone(), fs.clone());
                    want.insert(path, fs);
                }
                guarded("writing a table", move || t.to_file().map_err(|e| format!("{}", e)))?.map_err(|e| format!("cannot write table: {}", e))?;
            }
            let bytes = sys.h_read("table").ok_or("table file missing after to_file")?;
            let back = read_table_bytes(&bytes)?.map_err(|e| format!("a freshly written table cannot be read: {}", e))?;
            for (path, fs) in back
            {
                let w = want.get(&path).cloned().unwrap_or_else(FileState::empty);
                if fs != w
                {
                    return Err(format!("table entry for {} read back as {:?}, written {:?}", path, fs, w));
                }
            }
            check_prefixes_and_flips(&bytes, *flips, &|b| Ok(read_table_bytes(b)?.is_ok()), "file-state table", stats)
        }
        Case::Bytes { data } =>
        {
            let _ = read_history_bytes(data)?;
            let _ = read_table_bytes(data)?;
            Ok(())
        }
        Case::FuzzBytes { hex } =>
        {
            let data = crate::verif::fuzzrun::unhex(hex);
            if let Ok(rh) = read_history_bytes(&data)?
            {
                // accepted: well-formed (round-trips) and none of its own strict prefixes is accepted
                let bytes = bincode::serialize(&rh).map_err(|e| format!("accepted history does not serialise: {}", e))?;
                match read_history_bytes(&bytes)?
                {
                    Ok(back) => if back != rh { return Err("an accepted history is not stable under a round trip".to_string()); },
                    Err(e) => return Err(format!("an accepted history does not read back: {}", e)),
                }
                for n in 0..bytes.len().min(256)
                {
                    if read_history_bytes(&bytes[..n])?.is_ok()
                    {
                        return Err(format!("a strict prefix ({} of {} bytes) of a valid rule-history file was accepted", n, bytes.len()));
                    }
                }
            }
            let _ = read_table_bytes(&data)?;
            Ok(())
        }
        Case::HugeCount { entries, targets, count, which } =>
        {
            let rh = make_history(entries, *targets);
            let mut bytes = bincode::serialize(&rh).map_err(|e| format!("{}", e))?;
            // the leading u64 is the map length; inner vec lengths follow each key
            let off = if *which % 2 == 0 || bytes.len() < 48 { 0 } else { 40 };
            if bytes.len() >= off + 8
            {
                bytes[off..off + 8].copy_from_slice(&count.to_le_bytes());
            }
            let r = read_history_bytes(&bytes)?;
            let n = entries.iter().collect::<std::collections::BTreeSet<_>>().len() as u64;
            if off == 0 && *count > n && r.is_ok()
            {
                return Err(format!("history file claiming {} entries but holding {} was accepted", count, n));
            }
            let _ = read_table_bytes(&bytes)?;
            Ok(())
        }
    }
}

pub fn strategy() -> impl Strategy<Value = Case>
{
    prop_oneof![
        4 => (proptest::collection::vec(any::<u32>(), 0..50), 1u8..=8, any::<u32>(), prop_oneof![3 => Just(false), 1 => Just(true)])
            .prop_map(|(entries, targets, rule_seed, flips)| Case::History { flips: flips && entries.len() * (targets as usize) < 10, entries, targets, rule_seed }),
        4 => (proptest::collection::vec((any::<u16>(), any::<u32>(), any::<u64>(), any::<bool>()), 0..50), prop_oneof![3 => Just(false), 1 => Just(true)])
            .prop_map(|(entries, flips)| Case::Table { flips: flips && entries.len() < 5, entries }),
        6 => proptest::collection::vec(any::<u8>(), 0..200).prop_map(|data| Case::Bytes { data }),
        2 => (proptest::collection::vec(any::<u32>(), 0..6), 1u8..=4, prop_oneof![any::<u64>(), (0u64..100), Just(u64::MAX), Just(1u64 << 40)], any::<u8>())
            .prop_map(|(entries, targets, count, which)| Case::HugeCount { entries, targets, count, which }),
    ]
}

pub fn test_case(c: &Case, stats: &mut Stats) -> Result<(), String>
{
    let (class, nt) = match c
    {
        Case::History { entries, .. } => ("history", entries.len() >= 2),
        Case::Table { entries, .. } => ("table", entries.len() >= 2),
        Case::Bytes { data } => ("bytes", data.len() >= 8),
        Case::HugeCount { .. } => ("huge-count", true),
        Case::FuzzBytes { .. } => ("fuzz-input", true),
    };
    stats.class(class);
    if nt
    {
        stats.nontrivial(drive::key_of(c));
    }
    stats.sample(nt && class != "bytes", || json!(c));
    check(c, stats)
}

pub fn run(ctx: &Ctx) -> Report
{
    let mut rep = Report::new("exploration",
        "proptest rule histories (0..50 entries x 1..8 targets, built through RuleHistory::insert) and file-state tables (through insert_file_state), \
         written with write_rule_history / to_file and read back by a fresh object on VerifSystem; every strict prefix of every instance; every single \
         bit flip of instances <= 400 bytes; random byte strings; length-field mutations. Non-trivial = at least 2 entries (or >= 8 random bytes); \
         distinct by case hash");
    rep.assume("equality is on decoded values (HashMap order is random), not on bytes");
    rep.assume("a flipped payload bit may decode to well-formed different data; only panics and accepted strict prefixes are violations there");
    let cases = ctx.tier.pick(6000u32, 80000);
    rep.absorb(drive::drive(ctx, 16, cases, strategy, test_case));
    if ctx.tier == crate::verif::drive::Tier::Thorough
    {
        let o = crate::verif::fuzzrun::run_target(ctx, "state", 600_000, 12, 512);
        crate::verif::fuzzrun::record(&mut rep.stats, &o, "state");
        rep.stats.evaluations += o.runs;
        for c in o.crashes.iter()
        {
            let case = Case::FuzzBytes { hex: crate::verif::fuzzrun::hex(c) };
            let mut st = Stats::default();
            match crate::verif::sched::catch_quiet(|| check(&case, &mut st))
            {
                Ok(Ok(())) => { rep.stats.class("libfuzzer-crash-not-confirmed-in-process"); eprintln!("libFuzzer saved an input that the in-process oracle accepts; not reported"); }
                Ok(Err(m)) => rep.failures.push(drive::Failure { reason: m, case: json!(case) }),
                Err(m) => rep.failures.push(drive::Failure { reason: format!("panic in the code under test: {}", m), case: json!(case) }),
            }
        }
    }
    rep
}

pub fn replay(_ctx: &Ctx, case: &serde_json::Value) -> Result<(), String>
{
    let c: Case = drive::parse_case(case)?;
    let mut st = Stats::default();
    check(&c, &mut st)
}
