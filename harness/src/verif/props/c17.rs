//! C17 — a rule that is not reproducible is reported, never silently accepted.

use std::collections::{BTreeMap, BTreeSet};

use proptest::prelude::*;
use serde::{Deserialize, Serialize};
use serde_json::json;

use crate::history::{History, RuleHistory};
use crate::rule::Rule;
use crate::verif::b62;
use crate::verif::cmd::Instr;
use crate::verif::drive::{self, Ctx, Report, Stats};
use crate::verif::engine::{self, Applied, ErrSum, Inv, Obs, WErr, World, RULER_DIR};
use crate::verif::gen::{self, GraphSpec, Op, OpMix, Sched};
use crate::verif::history;
use crate::verif::model::{MRule, ROut};
use crate::verif::props::c01;
use crate::verif::vsys::Clock;

#[derive(Clone, Debug, Serialize, Deserialize, PartialEq)]
pub struct ReproCase
{
    pub graph: GraphSpec,
    /// which rule gets the undeclared input
    pub rule: u16,
    /// bit k set: target k of that rule depends on the undeclared input
    pub affected_mask: u8,
    /// which target is tampered/deleted to force re-execution; tamper (true) or delete
    pub force_target: u16,
    pub tamper: bool,
    pub prefix: Vec<Op>,
    pub sched_seed: u16,
    /// an unrelated rule (neither ancestor nor descendant of the contradicting one) whose command is edited before the
    /// contradicting build, so that it has to run in that same build
    #[serde(default)]
    pub other: Option<u16>,
    /// the affected targets are written by a `cp -p` of the undeclared input (they carry ITS modification time), and the
    /// changed input is an older file moved into place: the re-written target is not newer than what ruler remembers
    #[serde(default)]
    pub preserve: bool,
}

const UNDECL: &str = "undeclared.in";

fn read_history(w: &World, r: &MRule) -> Result<RuleHistory, String>
{
    let rule = Rule::new(r.sorted_targets(), r.sorted_sources(), r.command_lines());
    let h = History::new(w.sys.clone(), &format!("{}/history", RULER_DIR));
    h.read_rule_history(&rule.get_ticket()).map_err(|e| format!("cannot read the rule's history: {}", e))
}

fn descendants(w: &World, ri: usize) -> BTreeSet<usize>
{
    let mut out = BTreeSet::new();
    let mut stack = vec![ri];
    while let Some(r) = stack.pop()
    {
        for d in w.model.dependents_of_rule(r)
        {
            if out.insert(d)
            {
                stack.push(d);
            }
        }
    }
    out
}

fn ancestors(w: &World, ri: usize) -> BTreeSet<usize>
{
    let mut out = BTreeSet::new();
    let mut stack = vec![ri];
    while let Some(r) = stack.pop()
    {
        for s in w.model.rules[r].sources.iter()
        {
            if let Some(p) = w.model.producer_of(s)
            {
                if out.insert(p)
                {
                    stack.push(p);
                }
            }
        }
    }
    out
}

/// force re-execution of rule `ri`: tamper with or delete one target and remove the cache
/// entry of its recorded output
fn force(w: &mut World, target: &str, recorded: &[u8], tamper: bool)
{
    w.sys.tick();
    if tamper
    {
        w.sys.h_write(target, b"hand-edited");
    }
    else
    {
        w.sys.h_remove(target);
    }
    w.sys.h_remove(&format!("{}/cache/{}", RULER_DIR, b62::name_of(recorded)));
}

pub fn test_case(c: &ReproCase, stats: &mut Stats) -> Result<(), String>
{
    let mut w = World::new(&c.graph, Clock::Distinct);
    let ri = gen::pick(c.rule, w.model.rules.len());
    // give the chosen targets an undeclared input
    let targets = w.model.rules[ri].targets.clone();
    let mut affected: Vec<String> = vec![];
    {
        let r = &mut w.model.rules[ri];
        for (k, t) in targets.iter().enumerate()
        {
            if c.affected_mask >> k & 1 == 0
            {
                continue;
            }
            for chain in r.script.iter_mut()
            {
                for ins in chain.iter_mut()
                {
                    if c.preserve
                    {
                        if ins.target() == Some(t.as_str()) && !matches!(ins, Instr::ChmodX { .. })
                        {
                            *ins = Instr::EmitCopyP { t: t.clone(), src: UNDECL.to_string() };
                            if !affected.contains(t) { affected.push(t.clone()); }
                        }
                        continue;
                    }
                    let replace = match ins
                    {
                        Instr::EmitMix { t: tt, srcs, .. } if tt == t => { srcs.push(UNDECL.to_string()); None }
                        Instr::EmitCopy { t: tt, src } if tt == t => Some(Instr::EmitMix { t: t.clone(), tag: "U".to_string(), srcs: vec![src.clone(), UNDECL.to_string()] }),
                        Instr::EmitConst { t: tt, tag } if tt == t => Some(Instr::EmitMix { t: t.clone(), tag: tag.clone(), srcs: vec![UNDECL.to_string()] }),
                        _ => continue,
                    };
                    if let Some(n) = replace { *ins = n; }
                    if !affected.contains(t) { affected.push(t.clone()); }
                }
            }
        }
    }
    w.sys.h_write(UNDECL, b"one");
    w.model.files.insert(UNDECL.to_string(), b"one".to_vec());
    w.sync_rules();
    for op in c.prefix.iter()
    {
        if let Applied::Invocation(inv) = w.apply(op)
        {
            let obs = w.invoke(inv, &Sched::Serial { highest: false }, None);
            if let Some(m) = history::describe_abnormal(&obs) { return Err(format!("prefix: {}", m)); }
        }
    }
    let sched = history::sched_for(c.sched_seed, 1);
    let b1 = w.invoke(Inv::Build(None), &sched, None);
    if let Some(m) = history::describe_abnormal(&b1) { return Err(m); }
    if !b1.ok() { return Err(format!("first build failed: {:?}", b1.result)); }
    c01::check_c01(&w, &b1)?;
    let rule = w.model.rules[ri].clone();
    let hist_before = read_history(&w, &rule)?;
    let recorded: BTreeMap<String, Vec<u8>> = rule.targets.iter().map(|t| (t.clone(), b1.post[t].data.clone())).collect();
    let others_before = b1.post.clone();

    // the undeclared input changes; re-execution is forced
    w.sys.tick();
    if c.preserve
    {
        // an older file moved into place (its own, never reused, past modification time)
        w.sys.h_write_at(UNDECL, b"two", crate::verif::vsys::EPOCH_US - 5_000_000);
    }
    else
    {
        w.sys.h_write(UNDECL, b"two");
    }
    w.model.files.insert(UNDECL.to_string(), b"two".to_vec());
    let ft = rule.targets[gen::pick(c.force_target, rule.targets.len())].clone();
    force(&mut w, &ft, &recorded[&ft], c.tamper);
    // an unrelated rule gets a new command (a new identity) so that it has work to do in the same build
    let mut other_rule: Option<usize> = None;
    if let Some(pick) = c.other
    {
        let anc = ancestors(&w, ri);
        let desc0 = descendants(&w, ri);
        let eligible: Vec<usize> = (0..w.model.rules.len()).filter(|i| *i != ri && !anc.contains(i) && !desc0.contains(i)).collect();
        if !eligible.is_empty()
        {
            let j = eligible[gen::pick(pick, eligible.len())];
            let n = w.model.rules.len();
            let x = ((j * 65536 + n - 1) / n).min(65535) as u16;
            if gen::pick(x, n) == j
            {
                if let Applied::UserAction(_) = w.apply(&Op::Retag { rule: x })
                {
                    other_rule = Some(j);
                }
            }
        }
    }
    let b2 = w.invoke(Inv::Build(None), &sched, None);
    if let Some(m) = history::describe_abnormal(&b2) { return Err(m); }
    let ran = b2.executed_rules(&w.model);
    // did the unrelated rule run and succeed in this build?
    let other_built = match other_rule
    {
        Some(j) => ran.contains(&j) && b2.reference.outcome[j] == ROut::Ok
            && w.model.rules[j].targets.iter().all(|t| b2.post.get(t).map(|f| &f.data) == b2.reference.files.get(t).map(|x| &x.0)),
        None => false,
    };
    if let Some(j) = other_rule
    {
        if !ran.contains(&j)
        {
            return Err(format!("the command of the unrelated rule {:?} was edited, but it did not run in the build in which rule {:?} contradicts its history", w.model.rules[j].targets, rule.targets));
        }
        if b2.reference.outcome[j] == ROut::Ok && !other_built
        {
            return Err(format!("the unrelated rule {:?} ran in the contradicting build but its targets do not hold what its command produces", w.model.rules[j].targets));
        }
    }
    if !ran.contains(&ri) && other_rule.is_some()
    {
        // the edited unrelated rule displaced a byte-identical file into the cache just before: ruler rightly took that
        // back instead of running the command.  Nothing to assert in this scenario.
        stats.class("force-defeated-by-unrelated-rule");
        return Ok(());
    }
    if !ran.contains(&ri)
    {
        return Err(format!("harness: re-execution of rule {:?} was not forced (nothing asserted)", rule.targets));
    }
    let differing: BTreeSet<String> = affected.iter().cloned().collect();
    let desc = descendants(&w, ri);
    if differing.is_empty()
    {
        if !b2.ok()
        {
            return Err(format!("no target depends on the changed undeclared input, but the re-executing build failed: {:?}", b2.result));
        }
        stats.class("no-target-affected");
    }
    else
    {
        let errs = match &b2.result
        {
            Some(Err(ErrSum::WorkErrors(v))) => v.clone(),
            other => return Err(format!("rule {:?} re-ran on identical declared sources and produced different targets {:?}, but the build returned {:?}", rule.targets, differing, other)),
        };
        let contras: Vec<&WErr> = errs.iter().filter(|e| matches!(e, WErr::Contradiction(_))).collect();
        if contras.len() != 1 || errs.len() != 1
        {
            return Err(format!("expected exactly one contradiction error for rule {:?}, got {:?}", rule.targets, errs));
        }
        if let WErr::Contradiction(paths) = contras[0]
        {
            let got: BTreeSet<String> = paths.iter().cloned().collect();
            if got != differing
            {
                return Err(format!("contradiction names {:?}, the targets that differ from the record are {:?}", got, differing));
            }
        }
        // what the user is shown names exactly these targets too, one per line
        let text = b2.error_text.clone().unwrap_or_default();
        let shown: BTreeSet<&str> = text.lines().map(|l| l.trim()).collect();
        for t in rule.targets.iter()
        {
            if shown.contains(t.as_str()) != differing.contains(t)
            {
                return Err(format!("the contradiction message shown to the user {} target {}; the targets that differ from the record are {:?}. Message: {:?}",
                    if differing.contains(t) { "does not name" } else { "names" }, t, differing, text));
            }
        }
        // the earlier record is kept unchanged
        let hist_after = read_history(&w, &rule)?;
        if hist_after != hist_before
        {
            return Err(format!("the history of rule {:?} changed although the run contradicted it", rule.targets));
        }
        // other rules are unaffected
        for (i, r) in w.model.rules.iter().enumerate()
        {
            if i == ri || desc.contains(&i)
            {
                if desc.contains(&i) && ran.contains(&i)
                {
                    return Err(format!("rule {:?} depends on the contradicting rule but its command ran", r.targets));
                }
                continue;
            }
            for t in r.targets.iter()
            {
                let expected_change = other_rule.map(|j| j == i || descendants(&w, j).contains(&i)).unwrap_or(false);
                if !expected_change && b2.post.get(t).map(|f| &f.data) != others_before.get(t).map(|f| &f.data)
                {
                    return Err(format!("target {} of an unrelated rule changed during the contradicting build", t));
                }
            }
        }
    }

    // nothing repaired, build again: the same verdict again (a failed build must not make the next one forget the record)
    if !differing.is_empty()
    {
        let b2b = w.invoke(Inv::Build(None), &sched, None);
        if let Some(m) = history::describe_abnormal(&b2b) { return Err(m); }
        let ran_again = b2b.executed_rules(&w.model).contains(&ri);
        if ran_again
        {
            match &b2b.result
            {
                Some(Err(ErrSum::WorkErrors(v))) if v.len() == 1 && matches!(&v[0], WErr::Contradiction(p) if p.iter().cloned().collect::<BTreeSet<String>>() == differing) => {}
                other => return Err(format!("the contradicting build was repeated with nothing repaired and the command ran again; the first time it named {:?}, the second time the build returned {:?}", differing, other)),
            }
        }
        else
        {
            // ruler may instead bring the recorded outputs back from the cache without running anything: then the
            // targets must hold exactly what was recorded
            for t in rule.targets.iter()
            {
                if b2b.ok() && b2b.post.get(t).map(|f| &f.data) != Some(&recorded[t])
                {
                    return Err(format!("the repeated build ran no command and reported success, but {} does not hold the recorded output", t));
                }
            }
            stats.class("repeat-resolved-from-cache");
        }
        if read_history(&w, &rule)? != hist_before
        {
            return Err(format!("the history of rule {:?} changed when the contradicting build was repeated", rule.targets));
        }
        // builds of other rules are unaffected: what the unrelated rule built next to the contradiction is remembered
        if let (Some(j), true) = (other_rule, other_built)
        {
            if b2b.executed_rules(&w.model).contains(&j)
            {
                return Err(format!(
                    "the unrelated rule {:?} was built successfully in the same build in which rule {:?} contradicted its history; with nothing changed its command ran again in the next build",
                    w.model.rules[j].targets, rule.targets));
            }
            stats.class("unrelated-rule-built-alongside");
        }
        stats.class("contradiction-repeated");
    }
    // input restored, forced again: the third build succeeds without contradiction
    w.sys.tick();
    w.sys.h_write(UNDECL, b"one");
    w.model.files.insert(UNDECL.to_string(), b"one".to_vec());
    force(&mut w, &ft, &recorded[&ft], c.tamper);
    let b3 = w.invoke(Inv::Build(None), &sched, None);
    if let Some(m) = history::describe_abnormal(&b3) { return Err(m); }
    if !b3.ok()
    {
        return Err(format!("with the undeclared input restored the build still fails: {:?}", b3.result));
    }
    c01::check_c01(&w, &b3)?;
    for t in rule.targets.iter()
    {
        if b3.post[t].data != recorded[t]
        {
            return Err(format!("target {} does not hold the recorded output after the input was restored", t));
        }
    }
    let proper_subset = rule.targets.len() >= 2 && !affected.is_empty() && affected.len() < rule.targets.len();
    if proper_subset { stats.class("proper-subset-affected"); }
    if c.preserve && !affected.is_empty() { stats.class("rewritten-target-keeps-an-older-mtime"); }
    if !desc.is_empty() { stats.class("rule-has-descendants"); }
    if c.tamper { stats.class("forced-by-tamper"); } else { stats.class("forced-by-delete"); }
    if proper_subset
    {
        stats.nontrivial(drive::key_of(c));
    }
    stats.sample(proper_subset, || json!({
        "rule": {"targets": rule.targets, "sources": rule.sources, "command": rule.command_lines()},
        "affected_targets": affected, "forced_target": ft, "tamper": c.tamper,
    }));
    Ok(())
}

pub fn strategy(max_rules: usize) -> impl Strategy<Value = ReproCase>
{
    let mix = OpMix { rule_edits: false, ruler_dir_damage: false, cleans: true, delete_leaf: false, swaps: 1, dir_ops: 0, orphan: false };
    (
        gen::graph_spec(max_rules, false).prop_map(|mut g| { for r in g.rules.iter_mut() { if r.n_targets < 2 && r.srcs.len() % 2 == 0 { r.n_targets = 2; } } g }),
        any::<u16>(), 0u8..8, any::<u16>(), any::<bool>(), gen::ops(mix, 5), prop_oneof![1 => Just(0u16), 1 => any::<u16>()],
        prop_oneof![1 => Just(None), 2 => any::<u16>().prop_map(Some)],
        prop_oneof![3 => Just(false), 1 => Just(true)],
    ).prop_map(|(graph, rule, affected_mask, force_target, tamper, prefix, sched_seed, other, preserve)| ReproCase { graph, rule, affected_mask, force_target, tamper, prefix, sched_seed, other, preserve })
}

pub fn run(ctx: &Ctx) -> Report
{
    let mut rep = Report::new("exploration",
        "scenario = graph in which one rule gets an undeclared input feeding a chosen subset of its targets (all 2^k subsets incl. empty) x short prior history; build; change \
         the undeclared input; force re-execution (tamper with or delete one target and delete the cache entry of its recorded output); build: exactly one Contradiction \
         naming exactly the differing targets, rule history read back equal, descendants do not run, unrelated rules untouched (empty subset: success); restore the \
         input, force again, build: success with the recorded outputs. Re-execution is verified in the call log before anything is asserted. Non-trivial = multi-target \
         rule with a proper non-empty subset affected; distinct by case hash");
    rep.assume("declared sources are byte-identical across the three builds; Distinct clock");
    let (cases, max_rules) = ctx.tier.pick((12000u32, 5usize), (80000, 9));
    rep.absorb(drive::drive(ctx, 17, cases, || strategy(max_rules), test_case));
    rep
}

pub fn replay(_ctx: &Ctx, case: &serde_json::Value) -> Result<(), String>
{
    let c: ReproCase = drive::parse_case(case)?;
    let mut st = Stats::default();
    test_case(&c, &mut st)
}
