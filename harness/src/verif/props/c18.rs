//! C18 — the modification-time shortcut never changes a result.
//! Self-differential: the same history with and without the saved file-state table,
//! under two clock models.

use std::collections::BTreeMap;

use proptest::prelude::*;
use serde::{Deserialize, Serialize};
use serde_json::json;

use crate::verif::drive::{self, Ctx, Report, Stats};
use crate::verif::engine::{self, Applied, Inv, Obs, World, RULER_DIR};
use crate::verif::gen::{self, GraphSpec, Op, OpMix, Sched};
use crate::verif::history::{self, HistoryCase};
use crate::verif::props::c01;
use crate::verif::vsys::{self, Clock};

#[derive(Clone, Debug, Serialize, Deserialize, PartialEq)]
pub struct ClockCase
{
    pub coarse: bool,
    pub history: HistoryCase,
}

fn workspace(obs: &Obs) -> BTreeMap<String, Vec<u8>>
{
    obs.post.iter().filter(|(p, _)| !engine::in_ruler_dir(p)).map(|(p, f)| (p.clone(), f.data.clone())).collect()
}

fn verdict(obs: &Obs) -> String
{
    match &obs.result
    {
        Some(Ok(())) => "success".to_string(),
        Some(Err(e)) => format!("{:?}", e),
        None => "did not return".to_string(),
    }
}

pub fn test_case(c: &ClockCase, stats: &mut Stats) -> Result<(), String>
{
    let clock = if c.coarse { Clock::Coarse } else { Clock::Distinct };
    let mut a = World::new(&c.history.graph, clock.clone());
    let mut b = World::new(&c.history.graph, clock);
    let mut nontrivial = false;
    let mut builds = 0;
    for op in c.history.ops.iter()
    {
        let ra = a.apply(op);
        let rb = b.apply(op);
        match (ra, rb)
        {
            (Applied::Invocation(ia), Applied::Invocation(ib)) =>
            {
                if ia.is_build()
                {
                    // world B: the table is erased before every build
                    b.sys.h_remove(&format!("{}/current_file_states", RULER_DIR));
                    builds += 1;
                }
                let oa = a.invoke(ia, &Sched::Serial { highest: false }, None);
                let ob = b.invoke(ib, &Sched::Serial { highest: false }, None);
                if let Some(m) = history::describe_abnormal(&oa) { return Err(format!("with table: {}", m)); }
                if let Some(m) = history::describe_abnormal(&ob) { return Err(format!("without table: {}", m)); }
                if !oa.inv.is_build()
                {
                    continue;
                }
                // did the shortcut have a chance to bite? a target came back from the cache carrying an mtime the table knows
                let cp = format!("{}/cache/", RULER_DIR);
                for e in oa.log.iter()
                {
                    if let vsys::Op::Rename(from, to) = &e.op
                    {
                        if e.ok && !e.in_cmd && from.starts_with(&cp)
                        {
                            stats.class("restore-from-cache");
                            if let Some(f) = oa.post.get(to)
                            {
                                if c.coarse && oa.pre.values().any(|g| g.mtime == f.mtime)
                                {
                                    nontrivial = true;
                                }
                            }
                        }
                    }
                }
                let (va, vb) = (verdict(&oa), verdict(&ob));
                if va != vb
                {
                    return Err(format!("build #{}: verdict with the file-state table is {}, without it {}", builds, va, vb));
                }
                let (wa, wb) = (workspace(&oa), workspace(&ob));
                if wa != wb
                {
                    let diff: Vec<String> = wa.keys().chain(wb.keys()).filter(|k| wa.get(*k) != wb.get(*k)).map(|k|
                        format!("{}: with table {:?}, without {:?}", k, wa.get(k).map(|x| String::from_utf8_lossy(x).to_string()), wb.get(k).map(|x| String::from_utf8_lossy(x).to_string()))).collect();
                    return Err(format!("build #{}: final file contents depend on the file-state table: {}", builds, diff.join("; ")));
                }
                c01::check_c01(&a, &oa).map_err(|m| format!("build #{} with table: {}", builds, m))?;
                c01::check_c01(&b, &ob).map_err(|m| format!("build #{} without table: {}", builds, m))?;
            }
            _ => {}
        }
    }
    stats.class(if c.coarse { "coarse-clock" } else { "distinct-clock" });
    if nontrivial
    {
        stats.nontrivial(drive::key_of(c));
        stats.class("coarse-restore-with-known-mtime");
    }
    stats.sample(nontrivial, || json!({"coarse_clock": c.coarse, "history": history::describe_case(&c.history)}));
    Ok(())
}

/// bias toward what makes the shortcut bite: multi-target rules with independent targets,
/// swaps and reverts, clean-then-build, identical contents in different places
fn biased_graph(max_rules: usize) -> impl Strategy<Value = GraphSpec>
{
    (gen::graph_spec(max_rules, true), any::<u8>()).prop_map(|(mut g, style)|
    {
        g.n_leaves = g.n_leaves.max(2);
        if style % 2 == 0
        {
            g.n_leaves = if style % 8 == 0 { 3 } else { 2 };
            // different contents to start with, so that a swap changes something
            if g.leaf_contents.len() >= 2 && g.leaf_contents[0] % gen::N_CONTENTS == g.leaf_contents[1] % gen::N_CONTENTS
            {
                g.leaf_contents[1] = (g.leaf_contents[0] + 1) % gen::N_CONTENTS;
            }
        }
        for (i, r) in g.rules.iter_mut().enumerate()
        {
            if i % 2 == 0
            {
                r.n_targets = r.n_targets.max(2);
                // targets that change independently: each reads one source only;
                // half of the time the same function (copy) so that contents can trade places
                for k in r.kinds.iter_mut()
                {
                    if style % 4 < 2 { *k = 2; } else if *k == 0 || *k == 3 { *k = 1; }
                }
                if r.srcs.len() < 2 { r.srcs.push(r.srcs[0].wrapping_add(30000)); }
                if i == 0 { r.srcs = vec![0, 40000]; }
                r.multi_line = false;
            }
        }
        if style % 8 == 2 && g.n_leaves == 2
        {
            // a rule with one target that never changes and two that trade places, and a dependent of the last one
            g.rules[0].n_targets = 3;
            g.rules[0].kinds = vec![3, 2, 2];
            g.rules[0].failon = None;
            g.rules[0].empty_cmd = false;
            if g.rules.len() >= 2
            {
                // candidates of rule 1: l0, l1, t0, t1, t2
                g.rules[1].srcs = vec![((4 * 65536 + 4) / 5) as u16];
                g.rules[1].failon = None;
                g.rules[1].empty_cmd = false;
            }
        }
        g
    })
}

fn ops_biased(max_ops: usize) -> impl Strategy<Value = Vec<Op>>
{
    let mix = OpMix { rule_edits: false, ruler_dir_damage: false, cleans: true, delete_leaf: true, swaps: 8, dir_ops: 0, orphan: false };
    prop_oneof![
        1 => gen::ops(mix, max_ops),
        1 => (any::<u16>(), any::<u16>(), gen::ops(mix, max_ops / 2), prop_oneof![2 => Just(None), 1 => any::<u16>().prop_map(Some)]).prop_map(|(a, b, tail, goal)|
        {
            let mut v = vec![Op::Build { goal: None }, Op::Swap { a, b }, Op::Build { goal: goal }, Op::Swap { a, b }, Op::Build { goal: None }];
            v.extend(tail);
            v
        }),
        1 => (any::<u16>(), 0u8..gen::N_CONTENTS, gen::ops(mix, max_ops / 2)).prop_map(|(leaf, content, tail)|
        {
            let mut v = vec![Op::Build { goal: None }, Op::Edit { leaf, content }, Op::Build { goal: None }, Op::Clean { goal: None }, Op::Revert { leaf }, Op::Build { goal: None }];
            v.extend(tail);
            v
        }),        // contents trade places and come back, and the build that brings them back from the cache FAILS for an unrelated
        // reason (a leaf is missing): whatever that build moved must still be reflected in the saved table afterwards
        1 => (any::<u16>(), any::<u16>(), any::<u16>(), gen::ops(mix, max_ops / 3)).prop_map(|(a, b, x, tail)|
        {
            let mut v = vec![Op::Build { goal: None }, Op::Swap { a, b }, Op::Build { goal: None }, Op::Swap { a, b }, Op::DeleteLeaf { leaf: x }, Op::Build { goal: None }, Op::Build { goal: None }];
            v.extend(tail);
            v
        }),
    ]
}

pub fn strategy(max_rules: usize, max_ops: usize) -> impl Strategy<Value = ClockCase>
{
    (prop_oneof![1 => Just(false), 3 => Just(true)], biased_graph(max_rules), ops_biased(max_ops))
        .prop_map(|(coarse, graph, ops)| ClockCase { coarse, history: HistoryCase { graph, ops, sched_seed: 0 } })
}

pub fn run(ctx: &Ctx) -> Report
{
    let mut rep = Report::new("exploration",
        "proptest histories (edits, reverts, swaps of leaf contents, builds with and without goals, cleans, tampered/deleted targets) on graphs biased toward multi-target \
         rules whose targets change independently; each history is executed twice in lockstep from the same start — as is, and with .ruler/current_file_states deleted \
         before every build — under the Distinct clock (25%) and the Coarse clock (75%: one tick per user action or ruler invocation, so files written in one invocation \
         share an mtime). After every build: equal verdicts, equal bytes of every workspace file, and C01 on both. Non-trivial = coarse clock and some build restored a \
         target from the cache whose mtime equals an mtime present before the build; distinct by case hash");
    rep.assume("the table-less run is ruler itself with less information: no model of the shortcut is involved");
    rep.assume("time always advances between user actions and invocations; user actions never move files between paths");
    let (cases, max_rules, max_ops) = ctx.tier.pick((12000u32, 5usize, 14usize), (120000, 9, 36));
    rep.absorb(drive::drive(ctx, 18, cases, || strategy(max_rules, max_ops), test_case));
    rep
}

pub fn replay(_ctx: &Ctx, case: &serde_json::Value) -> Result<(), String>
{
    let c: ClockCase = drive::parse_case(case)?;
    let mut st = Stats::default();
    test_case(&c, &mut st)
}
