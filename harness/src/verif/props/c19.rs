//! C19 — the cache server returns exactly the requested content or a clean 404.
//! Real file system, real `serve` child process, requests over loopback.

use std::collections::{BTreeMap, BTreeSet};

use proptest::prelude::*;
use serde::{Deserialize, Serialize};
use serde_json::json;

use crate::rule::Rule;
use crate::ticket::TicketFactory;
use crate::verif::b62;
use crate::verif::drive::{self, Ctx, Report, Stats};
use crate::verif::gen::{self, GraphSpec, Op};
use crate::verif::realfs::{self, HttpResp, RealWorld};
use crate::verif::sched::XorShift;

#[derive(Clone, Debug, Serialize, Deserialize, PartialEq)]
pub struct ServeCase
{
    pub graph: GraphSpec,
    pub steps: Vec<Op>,
    pub req_seed: u64,
    pub extra_requests: u16,
}

const CANARY_ROOT: &str = "CANARY-IN-WORKSPACE-ROOT-7f3a";
const CANARY_RULER: &str = "CANARY-IN-RULER-DIR-91bc";
const CANARY_HIST: &str = "CANARY-IN-HISTORY-DIR-55de";

fn rand_hash(r: &mut XorShift) -> String
{
    let mut v = [0u8; 32];
    for b in v.iter_mut()
    {
        *b = (r.next() >> 20) as u8;
    }
    b62::encode(&v)
}

fn has_canary(body: &[u8]) -> bool
{
    let s = String::from_utf8_lossy(body);
    s.contains(CANARY_ROOT) || s.contains(CANARY_RULER) || s.contains(CANARY_HIST)
}

fn get(port: u16, target: &str) -> Result<HttpResp, String>
{
    let r = realfs::http_get(port, target).map_err(|e| format!("GET {}: {}", target, e))?;
    if has_canary(&r.body)
    {
        return Err(format!("GET {} served bytes of a file outside the cache and history directories (status {})", target, r.status));
    }
    Ok(r)
}

struct Killer(std::process::Child);

impl Drop for Killer
{
    fn drop(&mut self)
    {
        let _ = self.0.kill();
        let _ = self.0.wait();
    }
}

pub fn test_case(c: &ServeCase, stats: &mut Stats) -> Result<(), String>
{
    let mut w = RealWorld::new(&c.graph)?;
    // recorded (rule ticket, sources ticket) -> expected body
    let mut recorded: BTreeMap<(String, String), String> = BTreeMap::new();
    let mut steps: Vec<Op> = vec![Op::Build { goal: None }];
    steps.extend(c.steps.iter().cloned());
    steps.push(Op::Build { goal: None });
    let mut builds = 0;
    for op in steps.iter()
    {
        match op
        {
            Op::Build { goal } =>
            {
                let g = w.goal_path(*goal);
                let out = w.build(g.as_deref())?;
                builds += 1;
                if !out.reported_success()
                {
                    return Err(format!("harness: a build that should succeed failed on the real file system: {:?}", out));
                }
                let snap = w.snapshot();
                let scope = w.model.scope(g.as_deref());
                for (i, r) in w.model.rules.iter().enumerate()
                {
                    if !scope[i] { continue; }
                    let rule_ticket = Rule::new(r.sorted_targets(), r.sorted_sources(), r.command_lines()).get_ticket().human_readable();
                    let mut f = TicketFactory::new();
                    let mut ok = true;
                    for s in r.sorted_sources()
                    {
                        match snap.get(&s)
                        {
                            Some((data, _)) => { let mut tf = TicketFactory::new(); tf.input_bytes(data); f.input_ticket(tf.result()); }
                            None => ok = false,
                        }
                    }
                    if !ok { continue; }
                    let src_ticket = f.result().human_readable();
                    let mut lines = vec![];
                    for t in r.sorted_targets()
                    {
                        match snap.get(&t)
                        {
                            Some((data, _)) => lines.push(b62::name_of(data)),
                            None => return Err(format!("harness: build reported success but target {} is missing", t)),
                        }
                    }
                    recorded.insert((rule_ticket, src_ticket), lines.join("\n"));
                }
            }
            Op::Clean { goal } =>
            {
                let g = w.goal_path(*goal);
                let out = w.clean(g.as_deref())?;
                if !out.reported_success()
                {
                    return Err(format!("harness: clean failed on the real file system: {:?}", out));
                }
            }
            other => { w.apply_simple(other)?; }
        }
    }
    // canaries: plain names and names that look like valid hashes
    let mut rng = XorShift::new(c.req_seed);
    let hashlike_root = rand_hash(&mut rng);
    let hashlike_ruler = rand_hash(&mut rng);
    let hashlike_hist = rand_hash(&mut rng);
    w.write("canary.txt", CANARY_ROOT.as_bytes())?;
    w.write(&hashlike_root, CANARY_ROOT.as_bytes())?;
    w.write(".ruler/canary", CANARY_RULER.as_bytes())?;
    w.write(&format!(".ruler/{}", hashlike_ruler), CANARY_RULER.as_bytes())?;
    w.write(".ruler/history/canary", CANARY_HIST.as_bytes())?;
    // a stray file with a malformed name inside the cache directory itself: still 404 ("malformed names get 404")
    w.write(".ruler/cache/canary", CANARY_RULER.as_bytes())?;
    w.write(".ruler/cache/x.y", CANARY_RULER.as_bytes())?;
    w.write(&format!(".ruler/history/{}", hashlike_hist), CANARY_HIST.as_bytes())?;

    // a directory inside the cache named like a valid hash (what backing up a directory target leaves behind)
    let hashlike_dir = rand_hash(&mut rng);
    std::fs::create_dir_all(w.path(&format!(".ruler/cache/{}", hashlike_dir))).map_err(|e| format!("harness: {}", e))?;
    w.write(&format!(".ruler/cache/{}/inside.txt", hashlike_dir), CANARY_RULER.as_bytes())?;

    // identity entry: a cache file with content nobody else has, to tell this world's server from a foreign one that
    // happens to listen on the same port (another worker or another check run that grabbed the port first)
    let identity: Vec<u8> = format!("rv-identity {} {:?} {}", std::process::id(), w.dir, c.req_seed).into_bytes();
    let identity_name = b62::name_of(&identity);
    w.write(&format!(".ruler/cache/{}", identity_name), &identity)?;

    let snap = w.snapshot();
    let cache: BTreeMap<String, Vec<u8>> = snap.iter().filter(|(k, _)| k.starts_with(".ruler/cache/") && !k.ends_with("/canary") && !k.ends_with("/x.y") && !k.ends_with("/inside.txt")).map(|(k, v)| (k[".ruler/cache/".len()..].to_string(), v.0.clone())).collect();

    // start the server (retry on port collisions)
    let mut started = None;
    for _ in 0..5
    {
        let port = realfs::free_port().ok_or("harness: no free port")?;
        let mut child = w.spawn_server(port)?;
        match realfs::wait_for_port(port, &mut child, std::time::Duration::from_secs(20))
        {
            Ok(()) =>
            {
                // whose server is it?  If the identity entry does not come back, either a foreign server holds the port (then
                // our child cannot bind and exits: try another port) or it is ours and serves wrongly (then go on and let
                // the checks below say so).
                let mine = matches!(get(port, &format!("/files/{}", identity_name)), Ok(r) if r.status == 200 && r.body == identity);
                if !mine
                {
                    let t0 = std::time::Instant::now();
                    let mut exited = false;
                    while t0.elapsed() < std::time::Duration::from_secs(10)
                    {
                        if let Ok(Some(_)) = child.try_wait() { exited = true; break; }
                        std::thread::sleep(std::time::Duration::from_millis(20));
                    }
                    if exited
                    {
                        stats.count("port_collisions_retried", 1);
                        continue;
                    }
                }
                started = Some((port, Killer(child)));
                break;
            }
            Err(_) => { let _ = child.kill(); let _ = child.wait(); }
        }
    }
    let (port, mut killer) = match started
    {
        Some(x) => x,
        None => return Err("harness: server did not start (inconclusive)".to_string()),
    };
    let mut requests = 0u64;

    // 1. every cached hash
    for (name, data) in cache.iter()
    {
        let r = get(port, &format!("/files/{}", name))?;
        requests += 1;
        if r.status != 200
        {
            return Err(format!("GET /files/{} for a cached file returned {}", name, r.status));
        }
        if r.body != *data
        {
            return Err(format!("GET /files/{} returned {} bytes that are not the cached file's ({} bytes)", name, r.body.len(), data.len()));
        }
        if b62::name_of(&r.body) != *name
        {
            return Err(format!("GET /files/{} returned a body whose hash is {}", name, b62::name_of(&r.body)));
        }
    }
    // 2. valid-looking hashes that are not cached (incl. the hash-named canaries)
    let mut absent = vec![hashlike_root.clone(), hashlike_ruler.clone(), hashlike_hist.clone(), hashlike_dir.clone()];
    for _ in 0..(6 + c.extra_requests % 8)
    {
        absent.push(rand_hash(&mut rng));
    }
    for h in absent.iter()
    {
        if cache.contains_key(h) { continue; }
        let r = get(port, &format!("/files/{}", h))?;
        requests += 1;
        if r.status != 404
        {
            return Err(format!("GET /files/{} (not in the cache) returned {} with {} bytes", h, r.status, r.body.len()));
        }
    }
    // 3. every recorded (rule, sources) pair
    for ((rt, st), body) in recorded.iter()
    {
        let r = get(port, &format!("/rules/{}/{}", rt, st))?;
        requests += 1;
        if r.status != 200
        {
            return Err(format!("GET /rules/{}/{} for a recorded build returned {}", rt, st, r.status));
        }
        if String::from_utf8_lossy(&r.body) != *body
        {
            return Err(format!("GET /rules/{}/{} returned {:?}, the recorded target hashes in target order are {:?}", rt, st, String::from_utf8_lossy(&r.body), body));
        }
    }
    // 4. unknown pairs
    let some_rule = recorded.keys().next().map(|k| k.0.clone());
    let some_src = recorded.keys().next().map(|k| k.1.clone());
    for _ in 0..4
    {
        let (a, b) = (rand_hash(&mut rng), rand_hash(&mut rng));
        for target in [format!("/rules/{}/{}", a, b), format!("/rules/{}/{}", some_rule.clone().unwrap_or(a.clone()), b), format!("/rules/{}/{}", a, some_src.clone().unwrap_or(b.clone())),
            format!("/rules/{}/{}", hashlike_hist, b)]
        {
            let r = get(port, &target)?;
            requests += 1;
            if r.status != 404
            {
                return Err(format!("GET {} (nothing recorded) returned {}", target, r.status));
            }
        }
    }
    // 4b. relatives of recorded names: the same 256-bit value with one bit flipped somewhere (first, middle, last bytes)
    //     is a well-formed name of something that was never recorded or cached
    {
        let mut relatives: Vec<String> = vec![];
        let flip = |name: &str, byte: usize, bit: u8| -> Option<String>
        {
            b62::decode(name).ok().map(|mut v| { v[byte] ^= 1 << bit; b62::encode(&v) })
        };
        for ((rt, st), _) in recorded.iter().take(3)
        {
            for (byte, bit) in [(0usize, 0u8), (7, 7), (8, 0), (9, 3), (16, 5), (24, 1), (31, 7), (31, 0)]
            {
                if let Some(s2) = flip(st, byte, bit)
                {
                    if !recorded.contains_key(&(rt.clone(), s2.clone())) { relatives.push(format!("/rules/{}/{}", rt, s2)); }
                }
                if let Some(r2) = flip(rt, byte, bit)
                {
                    if !recorded.contains_key(&(r2.clone(), st.clone())) { relatives.push(format!("/rules/{}/{}", r2, st)); }
                }
            }
        }
        for name in cache.keys().take(3)
        {
            for (byte, bit) in [(0usize, 0u8), (8, 0), (20, 4), (31, 7)]
            {
                if let Some(n2) = flip(name, byte, bit)
                {
                    if !cache.contains_key(&n2) { relatives.push(format!("/files/{}", n2)); }
                }
            }
        }
        for target in relatives.iter()
        {
            let r = get(port, target)?;
            requests += 1;
            if r.status != 404
            {
                return Err(format!("GET {} (a recorded name with one bit of the value flipped: never recorded, never cached) returned {}", target, r.status));
            }
        }
        stats.count("one_bit_relatives_requested", relatives.len() as u64);
    }
    // 5. malformed and hostile names
    let valid = cache.keys().next().cloned().unwrap_or_else(|| rand_hash(&mut rng));
    let long = "a".repeat(4096);
    let mut hostile: Vec<String> = vec![
        "canary", "canary.txt", "current_file_states", "history", "cache", "..", ".", "...", "%2e%2e", "%2e%2e%2fcanary", "..%2fcanary", "..%2f..%2fcanary.txt", "%2e%2e%2f%2e%2e%2fcanary.txt",
        "..%2fhistory%2fcanary", "..%5ccanary", "%2fetc%2fpasswd", "canary%00", "%00", "a", "0", "-", "_", "~", "+", "a+b", "x.y", "é", "%C3%A9", "%ZZ", "%",
    ].into_iter().map(|s| s.to_string()).collect();
    hostile.push(long.clone());
    hostile.push(valid[..42].to_string());                       // one short
    hostile.push(format!("{}0", valid));                         // one long
    hostile.push(format!("{}%2f..", valid));
    hostile.push(format!("..%2fcache%2f{}", valid));
    { let mut v: Vec<char> = valid.chars().collect(); v[7] = '-'; hostile.push(v.into_iter().collect()); }   // one foreign character
    { let mut v: Vec<char> = valid.chars().collect(); v[7] = '_'; hostile.push(v.into_iter().collect()); }
    hostile.push("Z".repeat(43));                                // value too large
    hostile.push(format!("{}Z", "0".repeat(42)));
    for k in 0..(c.extra_requests % 24)
    {
        // random near-misses
        let mut v: Vec<char> = rand_hash(&mut rng).chars().collect();
        match k % 4
        {
            0 => { v.truncate(1 + (rng.below(42) as usize)); }
            1 => { let i = rng.below(43) as usize; v[i] = ['.', '-', '~', '$', '!', '*', '(', ')'][(rng.below(8)) as usize]; }
            2 => { v.extend("ab".chars()); }
            _ => { v[42] = 'Z'; v[41] = 'Z'; }
        }
        hostile.push(v.into_iter().collect());
    }
    // names that a decoder written with character ranges might take for a second spelling of a cached hash: a
    // character just outside the alphabet read as digit 62+k, compensated in the next digit ("[" = 'Z'+1 ...)
    for name in cache.keys().take(4)
    {
        let digits: Vec<usize> = name.bytes().map(|c| b62::ALPHABET.iter().position(|a| *a == c).unwrap_or(0)).collect();
        for (family, chars) in [("after-Z", "[\\]^_`"), ("after-z", "{|}~"), ("after-9", ":;<=>?@")]
        {
            let _ = family;
            for (k, ch) in chars.chars().enumerate()
            {
                if let Some(i) = (0..42).find(|i| digits[*i] == k && digits[*i + 1] >= 1)
                {
                    let mut v: Vec<char> = name.chars().collect();
                    v[i] = ch;
                    v[i + 1] = b62::ALPHABET[digits[i + 1] - 1] as char;
                    let alias: String = v.into_iter().collect();
                    // only characters that may appear verbatim in a URI path segment reach the server's decoder
                    if !"_~:;=@".contains(ch) { continue; }
                    hostile.push(alias);
                }
            }
        }
    }
    for h in hostile.iter()
    {
        for target in [format!("/files/{}", h), format!("/rules/{}/{}", h, valid), format!("/rules/{}/{}", some_rule.clone().unwrap_or(valid.clone()), h)]
        {
            let r = get(port, &target)?;
            requests += 1;
            let lenient = h.contains('%') || h.len() > 1000 || !h.is_ascii();
            let ok = r.status == 404 || (lenient && (r.status == 400 || r.status == 414 || r.status == 431));
            if !ok
            {
                let shown: String = target.chars().take(120).collect();
                return Err(format!("GET {} (malformed name) returned {} with {} bytes", shown, r.status, r.body.len()));
            }
        }
    }
    // path-like names: a valid (cached / recorded) name followed by further segments is not a hash
    {
        let rule_pair = recorded.keys().next().cloned();
        let mut pathlike = vec![
            format!("/files/{}/extra", valid), format!("/files/{}/{}", valid, valid), format!("/files/{}/../current_file_states", valid),
            format!("/files/{}/..%2f..%2fcanary.txt", valid), format!("/files/{}/canary", valid), format!("/files/x/{}", valid),
        ];
        if let Some((rt, st)) = rule_pair
        {
            pathlike.push(format!("/rules/{}/{}/extra", rt, st));
            pathlike.push(format!("/rules/{}/{}/{}", rt, st, st));
            pathlike.push(format!("/rules/{}", rt));
            pathlike.push(format!("/rules/x/{}/{}", rt, st));
        }
        for target in pathlike
        {
            let r = get(port, &target)?;
            requests += 1;
            if r.status != 404
            {
                return Err(format!("GET {} (path-like name) returned {} with {} bytes", target, r.status, r.body.len()));
            }
        }
    }
    // other shapes: not judged beyond "answers, no canary, server alive"
    for target in ["/", "/files", "/files/", "/rules", "/rules/a", "/files/a/b", "/rules/a/b/c", "/canary.txt", "/.ruler/canary", "/files/../canary.txt", "/files//canary"]
    {
        let _ = get(port, target)?;
        requests += 1;
    }
    // 6. still alive and still correct
    if let Ok(Some(st)) = killer.0.try_wait()
    {
        return Err(format!("the server exited during the request batch: {:?}", st));
    }
    if let Some((name, data)) = cache.iter().next()
    {
        let r = get(port, &format!("/files/{}", name))?;
        requests += 1;
        if r.status != 200 || r.body != *data
        {
            return Err(format!("after the hostile batch GET /files/{} returned {} ({} bytes)", name, r.status, r.body.len()));
        }
    }
    stats.count("requests", requests);
    stats.count("cache_entries", cache.len() as u64);
    stats.count("recorded_pairs", recorded.len() as u64);
    let multi = w.model.rules.iter().any(|r| r.targets.len() > 1);
    let nt = cache.len() >= 2 && multi;
    if nt
    {
        stats.nontrivial(drive::key_of(c));
    }
    if builds >= 3 { stats.class("three-or-more-builds"); }
    stats.sample(nt, || json!({
        "rules": w.model.rules.iter().map(|r| json!({"targets": r.targets, "sources": r.sources, "command": r.command_lines()})).collect::<Vec<_>>(),
        "steps": steps.iter().map(|o| format!("{:?}", o)).collect::<Vec<_>>(),
        "cache_entries": cache.len(), "recorded_pairs": recorded.len(), "requests": requests,
    }));
    Ok(())
}

pub fn strategy(max_rules: usize) -> impl Strategy<Value = ServeCase>
{
    let step = prop_oneof![
        4 => (any::<u16>(), 0u8..gen::N_CONTENTS).prop_map(|(leaf, content)| Op::Edit { leaf, content }),
        2 => any::<u16>().prop_map(|leaf| Op::Revert { leaf }),
        4 => prop_oneof![2 => Just(None), 1 => any::<u16>().prop_map(Some)].prop_map(|goal| Op::Build { goal }),
        2 => prop_oneof![2 => Just(None), 1 => any::<u16>().prop_map(Some)].prop_map(|goal| Op::Clean { goal }),
        1 => (any::<u16>(), 0u8..gen::N_CONTENTS).prop_map(|(t, content)| Op::Tamper { t, content }),
        1 => any::<u16>().prop_map(|t| Op::DeleteTarget { t }),
    ];
    (
        gen::graph_spec(max_rules, false).prop_map(|mut g| { g.two_files = false; if let Some(r) = g.rules.get_mut(0) { r.n_targets = r.n_targets.max(2); } g }),
        proptest::collection::vec(step, 2..=6),
        any::<u64>(),
        any::<u16>(),
    ).prop_map(|(graph, steps, req_seed, extra_requests)| ServeCase { graph, steps, req_seed, extra_requests })
}

pub fn run(ctx: &Ctx) -> Report
{
    let mut rep = Report::new("exploration",
        "real file system: a generated workspace is taken through build + 2-6 random build/clean/edit/revert/tamper/delete steps + build by the built binary with /bin/sh \
         commands; canary files (plain names and names that look like valid hashes) are planted in the workspace root, .ruler/ and .ruler/history/; `serve` runs as a child \
         process; over loopback: every cached hash (200, exact bytes, body hash = name), valid-looking hashes not cached (404), every recorded (rule, sources) pair (200, \
         harness-computed target hashes newline-joined in sorted target order), unknown pairs (404), ~45 fixed + generated malformed/hostile names on all three parameter \
         positions (404; 400/414/431 tolerated only for percent-encoded, non-ASCII or 4 kB names), unjudged shapes (answer, no canary), then a valid request again and the child \
         still running. No canary byte may ever be served. Non-trivial = >=2 cache entries and a multi-target record; distinct by case hash");
    rep.assume("request strings for the rule endpoint are formed with the crate's own Rule::get_ticket / TicketFactory, as a real client would; expected bodies with the harness's own hash");
    rep.assume("only GET /files/<seg> and GET /rules/<seg>/<seg> are judged; start-up failures are retried and reported as harness errors");
    let (cases, max_rules) = ctx.tier.pick((48u32, 4usize), (480, 6));
    rep.absorb(drive::drive_opts(ctx, 19, cases, 12, || strategy(max_rules), test_case));
    rep
}

pub fn replay(_ctx: &Ctx, case: &serde_json::Value) -> Result<(), String>
{
    let c: ServeCase = drive::parse_case(case)?;
    let mut st = Stats::default();
    test_case(&c, &mut st)
}
