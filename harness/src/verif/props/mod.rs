pub mod c01;
pub mod c12;
pub mod c13;
pub mod c15;
pub mod c16;
pub mod c14;
pub mod c02;
pub mod audits;
