//! Real-file-system slices of C01 and C10: the same oracles, driven through the built
//! binary with /bin/sh commands in a scratch directory.

use std::collections::BTreeSet;

use proptest::prelude::*;
use serde::{Deserialize, Serialize};
use serde_json::json;

use crate::verif::b62;
use crate::verif::drive::{self, Ctx, Stats};
use crate::verif::gen::{self, GraphSpec, Op};
use crate::verif::realfs::RealWorld;

#[derive(Clone, Debug, Serialize, Deserialize, PartialEq)]
pub struct RealCase
{
    pub graph: GraphSpec,
    pub ops: Vec<Op>,
    pub clean_goal: Option<u16>,
    pub build_goal: Option<u16>,
}

fn step() -> impl Strategy<Value = Op>
{
    prop_oneof![
        5 => (any::<u16>(), 0u8..gen::N_CONTENTS).prop_map(|(leaf, content)| Op::Edit { leaf, content }),
        3 => any::<u16>().prop_map(|leaf| Op::Revert { leaf }),
        6 => prop_oneof![2 => Just(None), 1 => any::<u16>().prop_map(Some)].prop_map(|goal| Op::Build { goal }),
        2 => prop_oneof![2 => Just(None), 1 => any::<u16>().prop_map(Some)].prop_map(|goal| Op::Clean { goal }),
        2 => (any::<u16>(), 0u8..gen::N_CONTENTS).prop_map(|(t, content)| Op::Tamper { t, content }),
        2 => any::<u16>().prop_map(|t| Op::DeleteTarget { t }),
    ]
}

pub fn strategy(max_rules: usize, max_ops: usize) -> impl Strategy<Value = RealCase>
{
    (
        gen::graph_spec(max_rules, false).prop_map(|mut g| { for (i, r) in g.rules.iter_mut().enumerate() { if i % 2 == 0 { if let Some(e) = r.exec.get_mut(0) { *e = true; } } } g }),
        proptest::collection::vec(step(), 0..=max_ops),
        prop_oneof![2 => Just(None), 1 => any::<u16>().prop_map(Some)],
        prop_oneof![2 => Just(None), 1 => any::<u16>().prop_map(Some)],
    ).prop_map(|(graph, ops, clean_goal, build_goal)| RealCase { graph, ops, clean_goal, build_goal })
}

/// C01 on the real file system: after every build that reports success every in-scope
/// target equals the from-scratch evaluation.
fn check_build(w: &RealWorld, goal: Option<&str>, out: &crate::verif::realfs::RunOut) -> Result<(), String>
{
    let reference = w.model.eval(goal);
    if out.reported_success()
    {
        if !reference.all_ok()
        {
            return Err(format!("real fs: build reported success but the reference fails: {:?}", reference.outcome));
        }
        let snap = w.snapshot();
        for (i, r) in w.model.rules.iter().enumerate()
        {
            if !reference.in_scope[i] { continue; }
            for t in r.targets.iter()
            {
                let (want, wexec) = &reference.files[t];
                match snap.get(t)
                {
                    None => return Err(format!("real fs: build reported success but target {} does not exist", t)),
                    Some((data, _exec)) if data != want => return Err(format!("real fs: target {} holds {:?}, from scratch it would hold {:?}", t, String::from_utf8_lossy(data), String::from_utf8_lossy(want))),
                    Some((_data, _exec)) => { let _ = wexec; }
                }
            }
        }
        Ok(())
    }
    else if reference.all_ok()
    {
        Err(format!("real fs: every rule succeeds from scratch, but the build failed: {}", out.stderr.trim()))
    }
    else
    {
        Ok(())
    }
}

pub fn c01_real(c: &RealCase, stats: &mut Stats) -> Result<(), String>
{
    let mut w = RealWorld::new(&c.graph)?;
    let mut builds = 0;
    for op in c.ops.iter().chain(std::iter::once(&Op::Build { goal: None }))
    {
        match op
        {
            Op::Build { goal } =>
            {
                let g = w.goal_path(*goal);
                let out = w.build(g.as_deref())?;
                builds += 1;
                check_build(&w, g.as_deref(), &out)?;
            }
            Op::Clean { goal } =>
            {
                let g = w.goal_path(*goal);
                let out = w.clean(g.as_deref())?;
                if !out.reported_success() { return Err(format!("real fs: clean failed: {}", out.stderr.trim())); }
            }
            other => { w.apply_simple(other)?; }
        }
    }
    stats.count("realfs_scenarios", 1);
    stats.count("realfs_builds", builds);
    if builds >= 2 { stats.nontrivial(drive::key_of(c) ^ 0x5EA1); }
    Ok(())
}

pub fn c10_real(c: &RealCase, stats: &mut Stats) -> Result<(), String>
{
    let mut w = RealWorld::new(&c.graph)?;
    for op in c.ops.iter()
    {
        match op
        {
            Op::Build { goal } => { let g = w.goal_path(*goal); let out = w.build(g.as_deref())?; check_build(&w, g.as_deref(), &out)?; }
            Op::Clean { goal } => { let g = w.goal_path(*goal); let _ = w.clean(g.as_deref())?; }
            other => { w.apply_simple(other)?; }
        }
    }
    let full = w.build(None)?;
    check_build(&w, None, &full)?;
    if !full.reported_success() { return Err(format!("real fs: full build failed: {}", full.stderr.trim())); }
    let before = w.snapshot();
    let cgoal = w.goal_path(c.clean_goal);
    let clean_scope = w.model.scope(cgoal.as_deref());
    let cleaned: Vec<String> = w.model.rules.iter().enumerate().filter(|(i, _)| clean_scope[*i]).flat_map(|(_, r)| r.targets.iter().cloned()).collect();
    let cl = w.clean(cgoal.as_deref())?;
    if !cl.reported_success() { return Err(format!("real fs: clean failed: {}", cl.stderr.trim())); }
    let after_clean = w.snapshot();
    for t in cleaned.iter()
    {
        if after_clean.contains_key(t)
        {
            return Err(format!("real fs: after clean (goal {:?}) the in-scope target {} still exists", cgoal, t));
        }
        let prev = &before[t].0;
        match after_clean.get(&format!(".ruler/cache/{}", b62::name_of(prev)))
        {
            Some((d, _)) if d == prev => {}
            _ => return Err(format!("real fs: after clean the previous content of {} is not in the cache under its hash", t)),
        }
    }
    for (p, f) in before.iter()
    {
        if p.starts_with(".ruler/") || cleaned.contains(p) { continue; }
        if after_clean.get(p) != Some(f)
        {
            return Err(format!("real fs: clean (goal {:?}) changed {} which is not an in-scope target", cgoal, p));
        }
    }
    let bgoal = w.goal_path(c.build_goal);
    let b = w.build(bgoal.as_deref())?;
    check_build(&w, bgoal.as_deref(), &b)?;
    if !b.reported_success() { return Err(format!("real fs: build after clean failed: {}", b.stderr.trim())); }
    let after = w.snapshot();
    let build_scope = w.model.scope(bgoal.as_deref());
    let all_targets = w.model.all_targets();
    let mut back = 0;
    for (i, r) in w.model.rules.iter().enumerate()
    {
        if !(clean_scope[i] && build_scope[i]) { continue; }
        for t in r.targets.iter()
        {
            let was = &before[t];
            match after.get(t)
            {
                None => return Err(format!("real fs: cleaned target {} was not put back", t)),
                Some(f) =>
                {
                    if f.0 != was.0 { return Err(format!("real fs: cleaned target {} came back with different bytes", t)); }
                    let ref_exec = w.model.eval(bgoal.as_deref()).files.get(t).map(|x| x.1);
                    if f.1 != was.1 && ref_exec.is_some() && ref_exec != Some(was.1)
                    {
                        // the permission was not up to date before the clean (see c10.rs)
                        stats.class("permission-was-not-up-to-date-before-the-clean");
                    }
                    else if f.1 != was.1
                    {
                        let twin = before.iter().any(|(u, g)| u != t && g.0 == was.0);
                        if twin { stats.known(super::c10::KF_EXEC); }
                        else { return Err(format!("real fs: cleaned target {} came back {} its executable permission", t, if f.1 { "with" } else { "without" })); }
                    }
                    back += 1;
                }
            }
        }
    }
    let contents: Vec<&Vec<u8>> = cleaned.iter().map(|t| &before[t].0).collect();
    let distinct: BTreeSet<&Vec<u8>> = contents.iter().cloned().collect();
    if distinct.len() == contents.len() && b.stdout.contains("Built")
    {
        return Err(format!("real fs: every cleaned target had different content, yet the build after the clean ran a command: {}", b.stdout));
    }
    stats.count("realfs_scenarios", 1);
    if back >= 2 { stats.nontrivial(drive::key_of(c) ^ 0xC10); }
    stats.sample(back >= 2, || json!({"real_fs": true, "rules": w.model.rules.iter().map(|r| json!({"targets": r.targets, "sources": r.sources, "command": r.command_lines()})).collect::<Vec<_>>(),
        "ops": c.ops.iter().map(|o| format!("{:?}", o)).collect::<Vec<_>>(), "clean_goal": cgoal, "build_goal": bgoal}));
    Ok(())
}

pub fn run_c01_real(ctx: &Ctx, cases: u32) -> (Stats, Vec<drive::Failure>)
{
    drive::drive_opts(ctx, 101, cases, 16, || strategy(5, 8), c01_real)
}

pub fn run_c10_real(ctx: &Ctx, cases: u32) -> (Stats, Vec<drive::Failure>)
{
    drive::drive_opts(ctx, 110, cases, 16, || strategy(5, 5), c10_real)
}

// ---------------------------------------------------------------------------------------------------------------------
// Real-file-system slice of C04 and C20: a command that dies (non-zero exit, or killed by a signal) after or before it
// wrote its targets.  Only the real System turns a process status into the command result ruler judges, so the in-memory
// System cannot reach that conversion.

#[derive(Clone, Debug, Serialize, Deserialize, PartialEq)]
pub struct RealFailCase
{
    pub graph: GraphSpec,
    pub rule: u16,
    /// 0 `exit 3`, 1 SIGKILL, 2 SIGTERM, 3 SIGHUP
    pub how: u8,
    /// the command dies before writing anything (true) or after it wrote every target (false)
    pub early: bool,
}

pub fn fail_strategy(max_rules: usize) -> impl Strategy<Value = RealFailCase>
{
    (gen::graph_spec(max_rules, false), any::<u16>(), 0u8..4, prop_oneof![1 => Just(true), 3 => Just(false)])
        .prop_map(|(graph, rule, how, early)| RealFailCase { graph, rule, how, early })
}

/// status lines of one invocation: (banner, path), colour codes removed
fn status_lines(stdout: &str) -> Vec<(String, String)>
{
    let mut clean = String::new();
    let mut it = stdout.chars().peekable();
    while let Some(ch) = it.next()
    {
        if ch == '\u{1b}'
        {
            // ESC [ ... letter
            if it.peek() == Some(&'[')
            {
                it.next();
                while let Some(c2) = it.next()
                {
                    if c2.is_ascii_alphabetic() { break; }
                }
            }
            continue;
        }
        clean.push(ch);
    }
    let mut out = vec![];
    for line in clean.lines()
    {
        if let Some(pos) = line.find(": ")
        {
            let banner = line[..pos].trim().to_string();
            if ["Built", "Recovered", "Downloaded", "Up-to-date", "Outdated"].contains(&banner.as_str())
            {
                out.push((banner, line[pos + 2..].trim().to_string()));
            }
        }
    }
    out
}

fn check_failed_build(w: &RealWorld, out: &crate::verif::realfs::RunOut, which: &str, expect_status: &str, fresh: bool) -> Result<(), String>
{
    use crate::verif::model::ROut;
    let reference = w.model.eval(None);
    let failed: Vec<usize> = (0..w.model.rules.len()).filter(|i| matches!(reference.outcome[*i], ROut::Failed(_))).collect();
    if out.reported_success()
    {
        return Err(format!("real fs, {}: the command of rule {:?} died, but the build reported success (stdout {:?})",
            which, failed.iter().map(|i| &w.model.rules[*i].targets).collect::<Vec<_>>(), out.stdout));
    }
    let errs: Vec<&str> = out.stderr.lines().map(|l| l.trim()).filter(|l| !l.is_empty()).collect();
    if errs.len() != failed.len() || errs.iter().any(|l| *l != "Command executed but errored")
    {
        return Err(format!("real fs, {}: expected exactly {} error line(s) 'Command executed but errored' (one per rule whose command died), got {:?}", which, failed.len(), errs));
    }
    let st = status_lines(&out.stdout);
    let snap = w.snapshot();
    for (i, r) in w.model.rules.iter().enumerate()
    {
        for t in r.targets.iter()
        {
            let mine: Vec<&(String, String)> = st.iter().filter(|(_, p)| p == t).collect();
            match reference.outcome[i]
            {
                ROut::Ok =>
                {
                    if mine.len() != 1 || mine[0].0 != expect_status
                    {
                        return Err(format!("real fs, {}: target {} of a rule that does not depend on the failure should get exactly one status '{}', got {:?}", which, t, expect_status, mine));
                    }
                    let want = &reference.files[t].0;
                    if snap.get(t).map(|x| &x.0) != Some(want)
                    {
                        return Err(format!("real fs, {}: target {} of a rule that does not depend on the failure was not brought up to date", which, t));
                    }
                }
                _ =>
                {
                    if !mine.is_empty()
                    {
                        return Err(format!("real fs, {}: target {} belongs to a rule that failed or was cancelled but got status {:?}", which, t, mine));
                    }
                    if fresh && reference.outcome[i] == ROut::Cancelled && snap.contains_key(t)
                    {
                        return Err(format!("real fs, {}: rule {:?} depends on the rule whose command died, yet its target {} was produced", which, r.targets, t));
                    }
                }
            }
        }
    }
    Ok(())
}

pub fn fail_real(c: &RealFailCase, stats: &mut Stats) -> Result<(), String>
{
    use crate::verif::cmd::Instr;
    let mut w = RealWorld::new(&c.graph)?;
    // rules that have dependents are listed three more times: a failure there has something to cancel
    let n = w.model.rules.len();
    let mut choice: Vec<usize> = (0..n).collect();
    for _ in 0..3 { choice.extend((0..n).filter(|i| !w.model.dependents_of_rule(*i).is_empty())); }
    let f = choice[gen::pick(c.rule, choice.len())];
    let flag = "die.flag".to_string();
    {
        let r = &mut w.model.rules[f];
        let ins = Instr::DieIf { flag: flag.clone(), how: c.how % 4 };
        if r.script.is_empty() { r.script.push(vec![]); }
        if c.early { r.script[0].insert(0, ins); } else { r.script.last_mut().unwrap().push(ins); }
    }
    w.write(&flag, b"1")?;
    w.model.files.insert(flag.clone(), b"1".to_vec());
    w.sync_rules()?;
    let b1 = w.build(None)?;
    check_failed_build(&w, &b1, "first build", "Built", true)?;
    // nothing changed: the failure was not remembered as a success, everything else is up to date
    let b2 = w.build(None)?;
    check_failed_build(&w, &b2, "repeated build", "Up-to-date", false)?;
    // cause removed, same rule text: the command runs now and everything is built
    w.remove(&flag);
    w.model.files.remove(&flag);
    let b3 = w.build(None)?;
    check_build(&w, None, &b3)?;
    let st = status_lines(&b3.stdout);
    for t in w.model.rules[f].targets.iter()
    {
        let mine: Vec<&(String, String)> = st.iter().filter(|(_, p)| p == t).collect();
        if mine.len() != 1 || mine[0].0 != "Built"
        {
            return Err(format!("real fs, after the cause of the failure was removed: target {} of the rule whose command had died should be 'Built' now, got {:?}", t, mine));
        }
    }
    stats.count("realfs_failure_scenarios", 1);
    stats.class(match c.how % 4 { 0 => "real-exit-3", 1 => "real-sigkill", 2 => "real-sigterm", _ => "real-sighup" });
    if !c.early { stats.class("real-died-after-writing-targets"); }
    let has_dep = !w.model.dependents_of_rule(f).is_empty();
    if has_dep { stats.class("real-failure-has-dependent"); }
    if has_dep && c.how % 4 != 0 { stats.nontrivial(drive::key_of(c) ^ 0xFA11); }
    Ok(())
}

pub fn run_fail_real(ctx: &Ctx, salt: u64, cases: u32) -> (Stats, Vec<drive::Failure>)
{
    drive::drive_opts(ctx, salt, cases, 16, || fail_strategy(5), fail_real)
}

// ---------------------------------------------------------------------------------------------------------------------
// Real-file-system slice of C09: whatever ruler does, files that are not in-scope targets keep content, modification time
// and permissions.  Some targets are symbolic links to a source file (only the real System has links): moving the link into
// the cache must not move or touch the file it points to.

pub fn c09_strategy() -> impl Strategy<Value = RealCase>
{
    // exactly one instruction in the whole graph copies a file verbatim (first target of the first rule, from a leaf, not
    // made executable); it becomes the link.  No other target can then hold the same bytes, so ruler never has a reason to
    // put the link anywhere but back at its own path — a link restored at ANOTHER rule's target would make that rule's
    // command (`cat l > t`, `chmod +x t`) write through it into the source file, which is the command's doing, not ruler's
    // (a first version allowed byte-identical twins and raised exactly that alarm on the unchanged tree).
    strategy(5, 8).prop_map(|mut c|
    {
        c.graph.dirs = false;
        c.graph.odd_names = false;
        for (i, r) in c.graph.rules.iter_mut().enumerate()
        {
            for (k, kind) in r.kinds.iter_mut().enumerate()
            {
                if i == 0 && k == 0 { *kind = 2; } else if *kind == 2 { *kind = 0; }
            }
            if i == 0 { if let Some(e) = r.exec.get_mut(0) { *e = false; } }
        }
        c
    })
}

pub fn c09_real(c: &RealCase, stats: &mut Stats) -> Result<(), String>
{
    use crate::verif::cmd::Instr;
    let mut w = RealWorld::new(&c.graph)?;
    // every other plain copy of a leaf into a non-executable target becomes a link
    let leaves: BTreeSet<String> = w.leaves.iter().cloned().collect();
    let mut links: BTreeSet<String> = BTreeSet::new();
    let mut n = 0;
    for r in w.model.rules.iter_mut()
    {
        let chmodded: BTreeSet<String> = r.script.iter().flatten().filter_map(|i| if let Instr::ChmodX { t } = i { Some(t.clone()) } else { None }).collect();
        for chain in r.script.iter_mut()
        {
            for ins in chain.iter_mut()
            {
                if let Instr::EmitCopy { t, src } = ins
                {
                    if leaves.contains(src) && !chmodded.contains(t)
                    {
                        n += 1;
                        if n == 1 { links.insert(t.clone()); *ins = Instr::EmitLink { t: t.clone(), src: src.clone() }; }
                    }
                }
            }
        }
    }
    w.sync_rules()?;
    let mut invocations = 0;
    let mut link_moved = false;
    for op in c.ops.iter().chain([Op::Build { goal: None }, Op::Clean { goal: c.clean_goal }, Op::Build { goal: c.build_goal }].iter())
    {
        let (is_build, goal) = match op { Op::Build { goal } => (true, *goal), Op::Clean { goal } => (false, *goal), other => { w.apply_simple(other)?; continue; } };
        let g = w.goal_path(goal);
        let scope = w.model.scope(g.as_deref());
        let in_scope_targets: BTreeSet<String> = w.model.rules.iter().enumerate().filter(|(i, _)| scope[*i]).flat_map(|(_, r)| r.targets.iter().cloned()).collect();
        let before = w.snapshot();
        let before_stat = w.stat_all();
        let out = if is_build { w.build(g.as_deref())? } else { w.clean(g.as_deref())? };
        invocations += 1;
        let after = w.snapshot();
        let after_stat = w.stat_all();
        for (p, f) in before.iter()
        {
            if p.starts_with(".ruler/") || in_scope_targets.contains(p) { continue; }
            match after.get(p)
            {
                None => return Err(format!("real fs: `{}` (goal {:?}) removed {} which is not an in-scope target{}", if is_build { "build" } else { "clean" }, g, p,
                    if leaves.contains(p) { " (a source file some target is a symbolic link to)" } else { "" })),
                Some(a) if a != f => return Err(format!("real fs: `{}` (goal {:?}) changed the content or permissions of {} which is not an in-scope target: {} bytes exec={} -> {} bytes exec={}; ruler printed {:?}", if is_build { "build" } else { "clean" }, g, p,
                    f.0.len(), f.1, a.0.len(), a.1, out.stdout.chars().filter(|c| !c.is_control() || *c == '\n').take(400).collect::<String>())),
                _ => {}
            }
            if before_stat.get(p) != after_stat.get(p)
            {
                return Err(format!("real fs: `{}` (goal {:?}) changed modification time or mode of {} which is not an in-scope target: {:?} -> {:?}", if is_build { "build" } else { "clean" }, g, p, before_stat.get(p), after_stat.get(p)));
            }
        }
        if is_build { check_build(&w, g.as_deref(), &out)?; }
        if links.iter().any(|t| in_scope_targets.contains(t) && before.contains_key(t) && (!is_build || out.stdout.contains("Built"))) { link_moved = true; }
    }
    stats.count("realfs_scenarios", 1);
    stats.count("realfs_invocations", invocations);
    if !links.is_empty() { stats.class("real-some-target-is-a-symbolic-link"); }
    if link_moved { stats.class("real-link-target-displaced-or-cleaned"); stats.nontrivial(drive::key_of(c) ^ 0xC09); }
    Ok(())
}

pub fn run_c09(ctx: &Ctx) -> drive::Report
{
    let mut rep = crate::verif::props::audits::run_c09(ctx);
    let mut real = drive::drive_opts(ctx, 109, ctx.tier.pick(24, 300), 16, c09_strategy, c09_real);
    for f in real.1.iter_mut() { f.case = serde_json::json!({ "real_fs": f.case }); }
    rep.absorb(real);
    rep
}

pub fn replay_c09(ctx: &Ctx, case: &serde_json::Value) -> Result<(), String>
{
    if let Some(inner) = case.get("real_fs")
    {
        let c: RealCase = drive::parse_case(inner)?;
        return c09_real(&c, &mut Stats::default());
    }
    crate::verif::props::audits::replay_c09(ctx, case)
}

// ---------------------------------------------------------------------------------------------------------------------
// Real-file-system slice of C05: commands that print a lot (more than a pipe buffer) to stderr and/or stdout.  Only the
// real System talks to real child processes; a build that waits for its child in the wrong order never returns.

#[derive(Clone, Debug, Serialize, Deserialize, PartialEq)]
pub struct RealNoiseCase
{
    pub graph: GraphSpec,
    pub rule: u16,
    /// index into the size table, for stderr and stdout
    pub err: u8,
    pub out: u8,
    pub clean_after: bool,
}

const NOISE_SIZES: [u32; 5] = [0, 1000, 65537, 200000, 700000];

pub fn noise_strategy() -> impl Strategy<Value = RealNoiseCase>
{
    (gen::graph_spec(4, false), any::<u16>(), 0u8..5, 0u8..5, any::<bool>())
        .prop_map(|(graph, rule, err, out, clean_after)| RealNoiseCase { graph, rule, err, out, clean_after })
}

pub fn noise_real(c: &RealNoiseCase, stats: &mut Stats) -> Result<(), String>
{
    use crate::verif::cmd::Instr;
    let mut w = RealWorld::new(&c.graph)?;
    let f = gen::pick(c.rule, w.model.rules.len());
    let (e, o) = (NOISE_SIZES[c.err as usize % 5], NOISE_SIZES[c.out as usize % 5]);
    {
        let r = &mut w.model.rules[f];
        if r.script.is_empty() { r.script.push(vec![]); }
        r.script[0].insert(0, Instr::Noise { err: e, out: o });
    }
    w.sync_rules()?;
    // `run` itself reports an invocation that hangs (idle process tree); here: it returned, and did its job
    let b = w.build(None)?;
    if b.code != Some(0) { return Err(format!("real fs: `ruler build` ended with status {:?} when a command printed {} bytes to stderr and {} to stdout", b.code, e, o)); }
    let reference = w.model.eval(None);
    let snap = w.snapshot();
    for r in w.model.rules.iter()
    {
        for t in r.targets.iter()
        {
            if snap.get(t).map(|x| &x.0) != reference.files.get(t).map(|x| &x.0)
            {
                return Err(format!("real fs: after a build in which a command printed {} bytes to stderr and {} to stdout, target {} is not what a from-scratch build gives (stderr of ruler: {:?})", e, o, t,
                    b.stderr.chars().filter(|ch| *ch != 'e').take(300).collect::<String>()));
            }
        }
    }
    if c.clean_after
    {
        let cl = w.clean(None)?;
        if cl.code != Some(0) { return Err(format!("real fs: clean ended with status {:?}", cl.code)); }
    }
    stats.count("realfs_noisy_builds", 1);
    if e > 65536 || o > 65536 { stats.class("real-output-larger-than-a-pipe-buffer"); stats.nontrivial(drive::key_of(c) ^ 0x5015E); }
    if e > 65536 && o > 0 { stats.class("real-big-stderr-with-stdout"); }
    Ok(())
}

pub fn run_c05(ctx: &Ctx) -> drive::Report
{
    let mut rep = crate::verif::props::schedp::run_c05(ctx);
    let mut real = drive::drive_opts(ctx, 105, ctx.tier.pick(20, 200), 16, noise_strategy, noise_real);
    for f in real.1.iter_mut() { f.case = serde_json::json!({ "real_fs_noise": f.case }); }
    rep.absorb(real);
    rep
}

pub fn replay_c05(ctx: &Ctx, case: &serde_json::Value) -> Result<(), String>
{
    if let Some(inner) = case.get("real_fs_noise")
    {
        let c: RealNoiseCase = drive::parse_case(inner)?;
        return noise_real(&c, &mut Stats::default());
    }
    crate::verif::props::schedp::replay_c05(ctx, case)
}

pub fn run_c03(ctx: &Ctx) -> drive::Report
{
    // real-fs slice of C03: a producer whose command was killed has not "completely built" its targets, so no command that
    // reads them may start (on the in-memory System a command cannot die half-way)
    let mut rep = crate::verif::props::schedp::run_c03(ctx);
    let mut real = run_fail_real(ctx, 103, ctx.tier.pick(24, 300));
    for f in real.1.iter_mut() { f.case = serde_json::json!({ "real_fs_fail": f.case }); }
    rep.absorb(real);
    rep
}

pub fn replay_c03(ctx: &Ctx, case: &serde_json::Value) -> Result<(), String>
{
    if let Some(inner) = case.get("real_fs_fail")
    {
        let c: RealFailCase = drive::parse_case(inner)?;
        return fail_real(&c, &mut Stats::default());
    }
    crate::verif::props::schedp::replay_c03(ctx, case)
}

pub fn run_c04(ctx: &Ctx) -> drive::Report
{
    let mut rep = crate::verif::props::schedp::run_c04(ctx);
    let mut real = run_fail_real(ctx, 104, ctx.tier.pick(24, 300));
    for f in real.1.iter_mut() { f.case = serde_json::json!({ "real_fs_fail": f.case }); }
    rep.absorb(real);
    rep
}

pub fn replay_c04(ctx: &Ctx, case: &serde_json::Value) -> Result<(), String>
{
    if let Some(inner) = case.get("real_fs_fail")
    {
        let c: RealFailCase = drive::parse_case(inner)?;
        return fail_real(&c, &mut Stats::default());
    }
    crate::verif::props::schedp::replay_c04(ctx, case)
}

pub fn run_c20(ctx: &Ctx) -> drive::Report
{
    let mut rep = crate::verif::props::audits::run_c20(ctx);
    let mut real = run_fail_real(ctx, 120, ctx.tier.pick(24, 300));
    for f in real.1.iter_mut() { f.case = serde_json::json!({ "real_fs_fail": f.case }); }
    rep.absorb(real);
    rep
}

pub fn replay_c20(ctx: &Ctx, case: &serde_json::Value) -> Result<(), String>
{
    if let Some(inner) = case.get("real_fs_fail")
    {
        let c: RealFailCase = drive::parse_case(inner)?;
        return fail_real(&c, &mut Stats::default());
    }
    crate::verif::props::audits::replay_c20(ctx, case)
}

// ---------------------------------------------------------------------------------------------------------------------
// Real-file-system slice of C18 (and C01): a rule whose declared source is a DIRECTORY.  Only the real System gives a
// directory a modification time, and that time does not move when a file inside is rewritten in place.  The same history
// runs in two scratch directories in lockstep — as is, and with the saved file-state table deleted before every build.

#[derive(Clone, Debug, Serialize, Deserialize, PartialEq)]
pub enum DirOp
{
    /// rewrite dirsrc/a or dirsrc/b (or dirsrc/sub/c) in place: the directory's own mtime stays
    EditInside { which: u8, content: u8 },
    EditPlain { content: u8 },
    /// create / remove an extra entry: the directory's mtime moves, what the command reads does not change
    AddEntry,
    RemoveEntry,
    Build,
    Clean,
    DeleteTarget { which: u8 },
}

#[derive(Clone, Debug, Serialize, Deserialize, PartialEq)]
pub struct RealDirCase
{
    pub ops: Vec<DirOp>,
}

pub fn dir_strategy(max_ops: usize) -> impl Strategy<Value = RealDirCase>
{
    let op = prop_oneof![
        5 => (0u8..3, 0u8..gen::N_CONTENTS).prop_map(|(which, content)| DirOp::EditInside { which, content }),
        2 => (0u8..gen::N_CONTENTS).prop_map(|content| DirOp::EditPlain { content }),
        1 => Just(DirOp::AddEntry),
        1 => Just(DirOp::RemoveEntry),
        6 => Just(DirOp::Build),
        1 => Just(DirOp::Clean),
        1 => (0u8..2).prop_map(|which| DirOp::DeleteTarget { which }),
    ];
    proptest::collection::vec(op, 1..=max_ops).prop_map(|ops| RealDirCase { ops })
}

const DIR_RULES: &str = "t1\n:\ndirsrc\n:\ncat dirsrc/a dirsrc/b dirsrc/sub/c > t1\n:\n\nt2\n:\np\nt1\n:\ncat t1 p > t2\n:\n";

fn dir_world() -> Result<RealWorld, String>
{
    // a RealWorld only for its scratch directory and its way of running the binary; the rules file is written by hand
    let g = GraphSpec { n_leaves: 1, leaf_contents: vec![0], rules: vec![], name_seed: 0, dirs: false, two_files: false, bundle: false, render_seed: 0, odd_names: false };
    let w = RealWorld::new(&g)?;
    std::fs::create_dir_all(w.path("dirsrc/sub")).map_err(|e| format!("{}", e))?;
    w.write("dirsrc/a", b"a0")?;
    w.write("dirsrc/b", b"b0")?;
    w.write("dirsrc/sub/c", b"c0")?;
    w.write("p", b"p0")?;
    w.write("build.rules", DIR_RULES.as_bytes())?;
    Ok(w)
}

pub fn dir_real(c: &RealDirCase, stats: &mut Stats) -> Result<(), String>
{
    let a = dir_world()?;
    let b = dir_world()?;
    let mut builds = 0;
    let mut inplace_since_build = false;
    let mut built_once = false;
    let mut interesting = false;
    for op in c.ops.iter().chain(std::iter::once(&DirOp::Build))
    {
        match op
        {
            DirOp::EditInside { which, content } =>
            {
                let p = ["dirsrc/a", "dirsrc/b", "dirsrc/sub/c"][*which as usize % 3];
                let mut data = gen::content(*content);
                data.extend_from_slice(p.as_bytes());
                for w in [&a, &b] { w.write(p, &data)?; }
                if built_once { inplace_since_build = true; }
            }
            DirOp::EditPlain { content } => { for w in [&a, &b] { w.write("p", &gen::content(*content))?; } }
            DirOp::AddEntry => { for w in [&a, &b] { w.write("dirsrc/extra", b"x")?; } }
            DirOp::RemoveEntry => { for w in [&a, &b] { w.remove("dirsrc/extra"); } }
            DirOp::DeleteTarget { which } => { for w in [&a, &b] { w.remove(["t1", "t2"][*which as usize % 2]); } }
            DirOp::Clean =>
            {
                for w in [&a, &b]
                {
                    let out = w.clean(None)?;
                    if !out.reported_success() { return Err(format!("real fs: clean failed: {}", out.stderr.trim())); }
                }
            }
            DirOp::Build =>
            {
                b.remove(".ruler/current_file_states");
                let oa = a.build(None)?;
                let ob = b.build(None)?;
                builds += 1;
                if oa.reported_success() != ob.reported_success()
                {
                    return Err(format!("real fs, directory source, build #{}: verdict depends on the file-state table: with table {:?}, without {:?}", builds, oa.stderr.trim(), ob.stderr.trim()));
                }
                if !oa.reported_success()
                {
                    return Err(format!("real fs, directory source, build #{}: every command succeeds, but the build failed: {}", builds, oa.stderr.trim()));
                }
                let mut want1 = vec![];
                for p in ["dirsrc/a", "dirsrc/b", "dirsrc/sub/c"] { want1.extend(a.read(p).unwrap_or_default()); }
                let mut want2 = want1.clone();
                want2.extend(a.read("p").unwrap_or_default());
                for (t, want) in [("t1", &want1), ("t2", &want2)]
                {
                    let (ga, gb) = (a.read(t), b.read(t));
                    if ga != gb
                    {
                        return Err(format!("real fs, directory source, build #{}: {} depends on the file-state table: with table {} bytes, without {} bytes", builds, t,
                            ga.map(|x| x.len() as i64).unwrap_or(-1), gb.map(|x| x.len() as i64).unwrap_or(-1)));
                    }
                    if ga.as_ref() != Some(want)
                    {
                        return Err(format!("real fs, directory source, build #{}: build reported success but {} is not what its command produces from the current files", builds, t));
                    }
                }
                if inplace_since_build { interesting = true; }
                inplace_since_build = false;
                built_once = true;
            }
        }
    }
    stats.count("realfs_dir_source_scenarios", 1);
    stats.count("realfs_dir_source_builds", builds);
    if interesting { stats.class("real-file-inside-source-directory-rewritten-in-place-between-builds"); stats.nontrivial(drive::key_of(c) ^ 0xD18); }
    Ok(())
}

pub fn run_c18(ctx: &Ctx) -> drive::Report
{
    let mut rep = crate::verif::props::c18::run(ctx);
    let mut real = drive::drive_opts(ctx, 118, ctx.tier.pick(24, 300), 16, || dir_strategy(10), dir_real);
    for f in real.1.iter_mut() { f.case = serde_json::json!({ "real_fs_dir": f.case }); }
    rep.absorb(real);
    rep
}

pub fn replay_c18(ctx: &Ctx, case: &serde_json::Value) -> Result<(), String>
{
    if let Some(inner) = case.get("real_fs_dir")
    {
        let c: RealDirCase = drive::parse_case(inner)?;
        return dir_real(&c, &mut Stats::default());
    }
    crate::verif::props::c18::replay(ctx, case)
}
