//! C03, C04, C05, C06 — scheduled scenarios: one workspace state, one final build/clean,
//! many schedules of the deterministic scheduler.

use std::collections::{BTreeMap, BTreeSet};

use proptest::prelude::*;
use serde::{Deserialize, Serialize};
use serde_json::json;

use crate::verif::cmd::Instr;
use crate::verif::drive::{self, Ctx, Report, Stats, Tier};
use crate::verif::engine::{self, Applied, ErrSum, Inv, Obs, WErr, World};
use crate::verif::gen::{self, GraphSpec, Op, OpMix, Sched};
use crate::verif::history;
use crate::verif::model::{FailKind, ROut};
use crate::verif::props::audits;
use crate::verif::props::c01;
use crate::verif::vsys::{self, Clock};

#[derive(Clone, Debug, Serialize, Deserialize, PartialEq)]
pub struct SchedCase
{
    pub graph: GraphSpec,
    pub prefix: Vec<Op>,
    /// (rule pick, kind): 0 failif flag, 1 always fail, 2 does not generate one target, 3 first script line fails but the later lines write every target
    pub fail: Vec<(u16, u8)>,
    pub missing: Vec<u16>,
    pub goal: Option<u16>,
    pub clean: bool,
    pub scheds: Vec<Sched>,
    /// run the whole scenario under the coarse clock (files written in one invocation share an mtime)
    #[serde(default)]
    pub coarse: bool,
}

pub struct Prepared
{
    pub world: World,
    pub inv: Inv,
    pub flags: Vec<String>,
    pub original_rules: Vec<(usize, crate::verif::model::MRule)>,
    pub removed_leaves: Vec<(String, Vec<u8>)>,
}

pub fn prepare(c: &SchedCase) -> Result<Prepared, String>
{
    let mut w = World::new(&c.graph, if c.coarse { Clock::Coarse } else { Clock::Distinct });
    let mut flags = vec![];
    let mut originals = vec![];
    let n = w.model.rules.len();
    // rules that have dependents are listed twice: a failure there has something to cancel
    let mut choice: Vec<usize> = (0..n).filter(|i| !w.model.dependents_of_rule(*i).is_empty()).collect();
    choice.extend(0..n);
    for (k, (pick, kind)) in c.fail.iter().enumerate()
    {
        let ri = choice[gen::pick(*pick, choice.len())];
        if originals.iter().any(|(i, _)| *i == ri)
        {
            continue;
        }
        let orig = w.model.rules[ri].clone();
        let r = &mut w.model.rules[ri];
        let mut all: Vec<Instr> = r.script.iter().flatten().cloned().collect();
        all.retain(|i| !matches!(i, Instr::FailOn { .. }));
        let mut late_fail_line: Option<Vec<Instr>> = None;
        match kind % 4
        {
            3 =>
            {
                let flag = format!("flag{}", k);
                late_fail_line = Some(vec![Instr::FailIf { flag: flag.clone() }]);
                flags.push(flag);
            }
            0 =>
            {
                let flag = format!("flag{}", k);
                all.insert(0, Instr::FailIf { flag: flag.clone() });
                flags.push(flag);
            }
            1 =>
            {
                all = vec![Instr::Fail { tag: format!("r{}", ri) }];
            }
            _ =>
            {
                // drop every instruction for the last target: it is never generated
                let t = r.targets[r.targets.len() - 1].clone();
                all.retain(|i| i.target() != Some(t.as_str()));
                if all.is_empty()
                {
                    all.push(Instr::Nop { tag: format!("ng{}", ri) });
                }
            }
        }
        r.script = match late_fail_line { Some(l) => if all.is_empty() { vec![l] } else { vec![l, all] }, None => if all.is_empty() { vec![] } else { vec![all] } };
        originals.push((ri, orig));
    }
    for f in flags.iter()
    {
        w.sys.h_write(f, b"1");
        w.model.files.insert(f.clone(), b"1".to_vec());
    }
    // flags are undeclared files, not leaves that edits may pick
    w.sync_rules();
    for op in c.prefix.iter()
    {
        match w.apply(op)
        {
            Applied::Invocation(inv) =>
            {
                let obs = w.invoke(inv, &Sched::Serial { highest: false }, None);
                if let Some(m) = history::describe_abnormal(&obs)
                {
                    return Err(format!("prefix: {}", m));
                }
            }
            _ => {}
        }
    }
    let mut removed = vec![];
    for m in c.missing.iter()
    {
        let present: Vec<String> = w.leaves.iter().filter(|l| w.model.files.contains_key(*l)).cloned().collect();
        if present.len() <= 1
        {
            break;
        }
        let l = present[gen::pick(*m, present.len())].clone();
        let content = w.model.files.remove(&l).unwrap();
        w.sys.h_remove(&l);
        removed.push((l, content));
    }
    w.sync_rules();
    let goal = w.goal_path(c.goal);
    let inv = if c.clean { Inv::Clean(goal) } else { Inv::Build(goal) };
    Ok(Prepared { world: w, inv, flags, original_rules: originals, removed_leaves: removed })
}

// ------------------------------------------------------------------------------------
// per-run oracles

pub fn check_c05(obs: &Obs) -> Result<(), String>
{
    if let Some(d) = &obs.deadlock
    {
        return Err(format!("{} did not terminate: {}", if obs.inv.is_build() { "build" } else { "clean" }, d));
    }
    if !obs.panics.is_empty()
    {
        return Err(format!("panic: {}", obs.panics.join(" | ")));
    }
    match &obs.result
    {
        None => Err(format!("invocation did not return: {:?}", obs.aborted)),
        Some(Err(ErrSum::Sender)) => Err("internal channel send error reached the caller".to_string()),
        Some(Err(ErrSum::Receiver)) => Err("internal channel receive error reached the caller".to_string()),
        Some(Err(ErrSum::Weird)) => Err("build returned the 'Weird' internal error (a worker thread panicked)".to_string()),
        _ => Ok(()),
    }
}

pub fn check_c03(w: &World, obs: &Obs) -> Result<(), String>
{
    for c in obs.cmds.iter()
    {
        let key = c.lines.join("\n");
        let ri = match w.model.rules.iter().position(|r| r.script_key() == key)
        {
            Some(i) => i,
            None => continue,
        };
        let rule = &w.model.rules[ri];
        for (s, content) in c.entry_sources.iter()
        {
            let produced = w.model.producer_of(s).is_some();
            let want: Option<Vec<u8>> = if produced { obs.reference.files.get(s).map(|x| x.0.clone()) } else { w.model.files.get(s).cloned() };
            let want = match want
            {
                Some(x) => x,
                // the producer fails in the reference: this rule must not have run at all (C04's business)
                None => return Err(format!("command of {:?} started although its source {} cannot be produced in this build", rule.targets, s)),
            };
            match content
            {
                None => return Err(format!("command of {:?} started while its source {} did not exist", rule.targets, s)),
                Some(x) if *x != want => return Err(format!(
                    "command of {:?} started while its source {} held {:?}; its final content in this build is {:?}",
                    rule.targets, s, String::from_utf8_lossy(x), String::from_utf8_lossy(&want))),
                _ => {}
            }
            if produced
            {
                // final, not merely equal: nobody modifies the source after the command started
                if let Some(e) = obs.log.iter().find(|e| e.ok && e.seq > c.seq && e.op.is_mutation() && e.op.paths().contains(&s.as_str()))
                {
                    return Err(format!("source {} of {:?} was modified ({:?}) after the command had started", s, rule.targets, e.op));
                }
            }
        }
        // what the command actually read must be the final content too
        for (p, content) in c.reads.iter()
        {
            if let Some((wantc, _)) = obs.reference.files.get(p)
            {
                if !rule.targets.contains(p) && content.as_ref() != Some(wantc)
                {
                    return Err(format!("command of {:?} read {} = {:?}, final content is {:?}", rule.targets, p,
                        content.as_ref().map(|x| String::from_utf8_lossy(x).to_string()), String::from_utf8_lossy(wantc)));
                }
            }
        }
    }
    Ok(())
}

pub fn check_c04(w: &World, obs: &Obs) -> Result<bool, String>
{
    if !obs.inv.is_build()
    {
        return Ok(false);
    }
    let r = &obs.reference;
    let failed: Vec<usize> = (0..w.model.rules.len()).filter(|i| matches!(r.outcome[*i], ROut::Failed(_))).collect();
    if failed.is_empty() && r.missing.is_empty()
    {
        return Ok(false);
    }
    let errs = match &obs.result
    {
        Some(Err(ErrSum::WorkErrors(v))) => v.clone(),
        other => return Err(format!("{} rule(s) fail and {} leaf file(s) are missing, but the build returned {:?}", failed.len(), r.missing.len(), other)),
    };
    if errs.len() != failed.len() + r.missing.len()
    {
        return Err(format!("expected exactly {} errors (one per failed rule {:?} and missing file {:?}), got {:?}",
            failed.len() + r.missing.len(), failed.iter().map(|i| &w.model.rules[*i].targets).collect::<Vec<_>>(), r.missing, errs));
    }
    let mut remaining = errs.clone();
    for m in r.missing.iter()
    {
        match remaining.iter().position(|e| *e == WErr::FileNotFound(m.clone()))
        {
            Some(p) => { remaining.remove(p); }
            None => return Err(format!("missing leaf {} is not reported by name: {:?}", m, errs)),
        }
    }
    for i in failed.iter()
    {
        let pos = match &r.outcome[*i]
        {
            ROut::Failed(FailKind::Errored) => remaining.iter().position(|e| *e == WErr::CmdErrored),
            ROut::Failed(FailKind::NoCommand) => remaining.iter().position(|e| *e == WErr::NoCommand),
            ROut::Failed(FailKind::NotGenerated(ts)) => remaining.iter().position(|e| matches!(e, WErr::NotGenerated(t) if ts.contains(t))),
            _ => None,
        };
        match pos
        {
            Some(p) => { remaining.remove(p); }
            None => return Err(format!("failure of rule {:?} ({:?}) is not reported as such: {:?}", w.model.rules[*i].targets, r.outcome[*i], errs)),
        }
    }
    // what the user is shown: one line per error; a missing file or an ungenerated target is named in its line
    let text = obs.error_text.clone().unwrap_or_default();
    let shown: Vec<&str> = text.lines().map(|l| l.trim()).filter(|l| !l.is_empty()).collect();
    if shown.len() != errs.len()
    {
        return Err(format!("the build failed with {} error(s) but the message shown to the user has {} line(s): {:?}", errs.len(), shown.len(), shown));
    }
    for e in errs.iter()
    {
        let named = match e { WErr::FileNotFound(p) | WErr::NotGenerated(p) => Some(p), _ => None };
        if let Some(p) = named
        {
            if !shown.iter().any(|l| l.ends_with(&format!(": {}", p)))
            {
                return Err(format!("the message shown for the failed build does not name {}: {:?}", p, shown));
            }
        }
    }
    // no descendant runs; independent rules are brought up to date
    let ran = obs.executed_rules(&w.model);
    for i in 0..w.model.rules.len()
    {
        match r.outcome[i]
        {
            ROut::Cancelled =>
            {
                if ran.contains(&i)
                {
                    return Err(format!("rule {:?} depends on something that failed or is missing, but its command ran", w.model.rules[i].targets));
                }
            }
            ROut::Ok =>
            {
                for t in w.model.rules[i].targets.iter()
                {
                    let want = &r.files[t].0;
                    if obs.post.get(t).map(|f| &f.data) != Some(want)
                    {
                        return Err(format!("rule {:?} does not depend on any failure, but its target {} was not brought up to date", w.model.rules[i].targets, t));
                    }
                }
            }
            _ => {}
        }
    }
    // non-trivial: a failing rule with a dependent and an independent sibling that had work to do
    let has_dependent = failed.iter().any(|i| !w.model.dependents_of_rule(*i).is_empty());
    let independent_worked = (0..w.model.rules.len()).any(|i| r.outcome[i] == ROut::Ok && (ran.contains(&i)
        || obs.log.iter().any(|e| !e.in_cmd && e.ok && e.op.is_mutation() && w.model.rules[i].targets.iter().any(|t| e.op.paths().contains(&t.as_str())))));
    Ok((has_dependent || !r.missing.is_empty()) && independent_worked)
}

/// verdict and workspace files, as the property names them
pub fn outcome_of(obs: &Obs) -> (String, BTreeMap<String, (Vec<u8>, bool)>)
{
    let verdict = match &obs.result
    {
        Some(Ok(())) => "success".to_string(),
        Some(Err(e)) => format!("{:?}", e),
        None => format!("no result ({:?})", obs.deadlock.as_ref().or(obs.aborted.as_ref())),
    };
    // bytes and existence only: the property speaks of content; which byte-identical copy (and so which
    // permission bits) a restore hands back is not promised (C10 carves identical contents out explicitly)
    let files = obs.post.iter().filter(|(p, _)| !engine::in_ruler_dir(p)).map(|(p, f)| (p.clone(), (f.data.clone(), false))).collect();
    (verdict, files)
}

// ------------------------------------------------------------------------------------
// schedule sets

pub fn single_preemptions(steps: u64, budget: usize) -> (Vec<Sched>, bool)
{
    let mut v = vec![];
    let per_step = 3u64;
    let total = steps * per_step;
    if total as usize <= budget
    {
        for s in 1..=steps
        {
            for c in 0..per_step
            {
                v.push(Sched::PreemptAt { highest: false, points: vec![(s, c as u16)] });
            }
        }
        (v, true)
    }
    else
    {
        // over budget: every step with the first alternative thread first, then the second, ...
        'outer: for c in 0..per_step
        {
            for s in 1..=steps
            {
                if v.len() >= budget
                {
                    break 'outer;
                }
                v.push(Sched::PreemptAt { highest: false, points: vec![(s, c as u16)] });
            }
        }
        (v, false)
    }
}

#[derive(Clone, Copy, PartialEq)]
pub enum Which
{
    C03,
    C04,
    C05,
    C06,
}

pub struct Budget
{
    pub enum_budget: usize,
}

pub fn test_case(which: Which, budget: &Budget, c: &SchedCase, stats: &mut Stats) -> Result<(), String>
{
    let p = prepare(c)?;
    let (steps, _m) = p.world.dry_run_steps(&p.inv);
    let mut scheds: Vec<Sched> = vec![Sched::Serial { highest: false }, Sched::Serial { highest: true }];
    let (enumd, complete) = single_preemptions(steps, budget.enum_budget);
    scheds.extend(enumd);
    scheds.extend(c.scheds.iter().cloned());
    // directed: preempt exactly where a thread is about to touch a cache entry that another thread touches too
    // (addressed by thread/operation/occurrence). Second preemption points are taken from the yield log of the run with
    // the first one, so operations that only exist on the racy path (a re-check after a failed rename) are reachable.
    let directed_on = which == Which::C06 || which == Which::C03;
    let cache_path_of = |tag: &str| -> Option<String>
    {
        let rest = tag.splitn(2, ':').nth(1)?;
        rest.split('>').find(|x| x.starts_with(".ruler/cache/")).map(|x| x.to_string())
    };
    let conflict_events = |ylog: &Vec<(usize, String)>| -> Vec<(usize, String, u32)>
    {
        let mut by_path: BTreeMap<String, BTreeSet<usize>> = BTreeMap::new();
        for (t, tag) in ylog.iter()
        {
            if let Some(cp) = cache_path_of(tag) { by_path.entry(cp).or_default().insert(*t); }
        }
        let mut seen: BTreeMap<(usize, String), u32> = BTreeMap::new();
        let mut events = vec![];
        for (t, tag) in ylog.iter()
        {
            let n = seen.entry((*t, tag.clone())).or_insert(0);
            *n += 1;
            if let Some(cp) = cache_path_of(tag)
            {
                if by_path.get(&cp).map(|s| s.len() >= 2).unwrap_or(false)
                {
                    events.push((*t, tag.clone(), *n));
                }
            }
        }
        events
    };
    let mut directed_first: Vec<Sched> = vec![];
    if directed_on
    {
        let ylog = p.world.dry_run_yields(&p.inv);
        let events = conflict_events(&ylog);
        for e in events.iter()
        {
            for c0 in 0..2u16
            {
                if directed_first.len() >= budget.enum_budget / 3 { break; }
                directed_first.push(Sched::OnTag { points: vec![(e.0, e.1.clone(), e.2, c0)] });
            }
        }
        if !events.is_empty() { stats.class("has-cache-conflict-points"); }
    }
    let n_first = directed_first.len();
    scheds.extend(directed_first);
    // thorough tier, small scenarios: EVERY schedule with two preemptions (step pairs x alternative threads).
    // The second step is counted in the execution that already contains the first preemption.
    let mut exhaustive_pairs = 0u64;
    if budget.enum_budget >= 1000 && steps <= 56 && which != Which::C04
    {
        for s1 in 1..=steps
        {
            for s2 in (s1 + 1)..=(steps + 12)
            {
                for (c1, c2) in [(0u16, 0u16), (0, 1), (1, 0), (1, 1)]
                {
                    scheds.push(Sched::PreemptAt { highest: false, points: vec![(s1, c1), (s2, c2)] });
                    exhaustive_pairs += 1;
                }
            }
        }
        stats.class("all-two-preemption-schedules");
    }
    stats.count("two_preemption_schedules", exhaustive_pairs);
    if complete { stats.class("all-single-preemption-schedules"); } else { stats.class("sampled-single-preemption-schedules"); }
    stats.count("steps_serial", steps);

    let mut baseline: Option<(String, BTreeMap<String, (Vec<u8>, bool)>)> = None;
    let mut nontrivial = false;
    let mut preempted = false;
    let mut shared_cache_entry = false;
    let mut c04_nt = false;
    let mut events_seen = (false, false, false); // send to dropped receiver, recv on closed, join blocked
    let mut directed_pairs = 0usize;
    let mut idx = 0usize;
    while idx < scheds.len()
    {
        let s = scheds[idx].clone();
        let s = &s;
        idx += 1;
        let is_first_directed = matches!(s, Sched::OnTag { points } if points.len() == 1);
        let mut w = p.world.fork();
        let obs = w.invoke_opts(p.inv.clone(), s, None, is_first_directed && directed_on);
        stats.count("runs", 1);
        if is_first_directed && directed_on && obs.events.preemptions > 0
        {
            if let Sched::OnTag { points } = s
            {
                let first = points[0].clone();
                let evs = conflict_events(&obs.yields);
                // position of the first point in this run's event list
                let pos = evs.iter().position(|e| e.0 == first.0 && e.1 == first.1 && e.2 == first.2).map(|x| x + 1).unwrap_or(0);
                for e2 in evs.iter().skip(pos)
                {
                    for c2 in 0..2u16
                    {
                        if directed_pairs >= budget.enum_budget { break; }
                        scheds.push(Sched::OnTag { points: vec![first.clone(), (e2.0, e2.1.clone(), e2.2, c2)] });
                        directed_pairs += 1;
                    }
                }
            }
        }
        if obs.events.preemptions > 0
        {
            preempted = true;
        }
        if obs.events.send_to_dropped_receiver > 0 { events_seen.0 = true; }
        if obs.events.recv_on_closed > 0 { events_seen.1 = true; }
        if obs.events.join_blocked > 0 { events_seen.2 = true; }
        let ctx = |m: String| format!("{} [schedule {:?}, realised trace {:?}]", m, s, obs.trace);
        // C05 applies to every run of every property: nothing else can be judged on a run that did not return
        check_c05(&obs).map_err(ctx)?;
        match which
        {
            Which::C03 =>
            {
                check_c03(&w, &obs).map_err(ctx)?;
                c01::check_c01(&w, &obs).map_err(ctx)?;
                audits::check_c20(&w, &obs).map_err(ctx)?;
            }
            Which::C04 =>
            {
                if check_c04(&w, &obs).map_err(ctx)?
                {
                    c04_nt = true;
                }
                check_c03(&w, &obs).map_err(ctx)?;
                audits::check_c20(&w, &obs).map_err(ctx)?;
            }
            Which::C05 => {}
            Which::C06 =>
            {
                audits::check_c07(&obs).map_err(ctx)?;
                audits::check_c08_snapshot(&w, &obs.pre, &obs.post).map_err(ctx)?;
                let mut o = outcome_of(&obs);
                // how far a rule got before it failed (which of its targets had already been brought back from a shared
                // cache entry) is not an outcome: targets of rules that fail or are cancelled in this build are not compared
                for (i, r) in w.model.rules.iter().enumerate()
                {
                    if obs.reference.in_scope[i] && obs.reference.outcome[i] != ROut::Ok
                    {
                        for t in r.targets.iter() { o.1.remove(t); }
                    }
                }
                match &baseline
                {
                    None => baseline = Some(o),
                    Some(b) =>
                    {
                        if b.0 != o.0
                        {
                            return Err(ctx(format!("verdict depends on the schedule: serial run gives {}, this schedule gives {}", b.0, o.0)));
                        }
                        if b.1 != o.1
                        {
                            let diff: Vec<&String> = b.1.keys().chain(o.1.keys()).filter(|k| b.1.get(*k) != o.1.get(*k)).collect();
                            return Err(ctx(format!("final workspace content depends on the schedule: files {:?} differ from the serial run", diff)));
                        }
                    }
                }
                // two threads touched one cache entry
                let mut by_entry: BTreeMap<&str, BTreeSet<usize>> = BTreeMap::new();
                for e in obs.log.iter()
                {
                    for pth in e.op.paths()
                    {
                        if pth.starts_with(".ruler/cache/")
                        {
                            by_entry.entry(pth).or_default().insert(e.thread);
                        }
                    }
                }
                if by_entry.values().any(|t| t.len() >= 2)
                {
                    shared_cache_entry = true;
                }
            }
        }
        // repair-and-rebuild for C04 (serial run only, to keep cost linear)
        if which == Which::C04 && matches!(s, Sched::Serial { highest: false })
        {
            let failed: Vec<usize> = (0..w.model.rules.len()).filter(|i| matches!(obs.reference.outcome[*i], ROut::Failed(_))).collect();
            if !failed.is_empty() || !obs.reference.missing.is_empty()
            {
                // repair: remove flags, restore original commands of always-failing rules, re-create leaves
                for f in p.flags.iter()
                {
                    w.sys.h_remove(f);
                    w.model.files.remove(f);
                }
                let mut expect_run: Vec<Vec<String>> = vec![];
                for i in failed.iter()
                {
                    let uses_flag = w.model.rules[*i].script.iter().flatten().any(|ins| matches!(ins, Instr::FailIf { .. }));
                    if uses_flag
                    {
                        expect_run.push(w.model.rules[*i].targets.clone());
                    }
                }
                for (l, content) in p.removed_leaves.iter()
                {
                    w.sys.h_write(l, content);
                    w.model.files.insert(l.clone(), content.clone());
                }
                w.sync_rules();
                let obs2 = w.invoke(p.inv.clone(), &Sched::Serial { highest: false }, None);
                check_c05(&obs2).map_err(|m| format!("after repair: {}", m))?;
                let ran2 = obs2.executed_rules(&w.model);
                for ts in expect_run.iter()
                {
                    let i = w.model.rules.iter().position(|r| r.targets == *ts).unwrap();
                    if obs2.reference.in_scope[i] && obs2.reference.outcome[i] == ROut::Ok && !ran2.contains(&i)
                    {
                        return Err(format!("rule {:?} failed in the previous build; after the cause was repaired its command did not run again (something was remembered)", ts));
                    }
                }
                c01::check_c01(&w, &obs2).map_err(|m| format!("after repair: {}", m))?;
                stats.class("repaired-and-rebuilt");
            }
        }
    }
    stats.count("directed_single_schedules", n_first as u64);
    stats.count("directed_pair_schedules", directed_pairs as u64);
    let w = &p.world;
    let edges = w.model.rules.iter().map(|r| r.sources.iter().filter(|s| w.model.producer_of(s).is_some()).count()).sum::<usize>();
    match which
    {
        Which::C03 => nontrivial = w.model.rules.len() >= 2 && edges >= 1 && preempted,
        Which::C04 => nontrivial = c04_nt && preempted,
        Which::C05 => nontrivial = preempted && (events_seen.0 || events_seen.1 || events_seen.2 || !c.fail.is_empty()),
        Which::C06 => nontrivial = shared_cache_entry && preempted,
    }
    if events_seen.2 { stats.class("join-on-unfinished-thread"); }
    if events_seen.0 { stats.class("send-to-dropped-receiver"); }
    if shared_cache_entry { stats.class("two-threads-one-cache-entry"); }
    if !c.fail.is_empty() || !c.missing.is_empty() { stats.class("with-failures"); }
    if c.clean { stats.class("final-op-clean"); }
    if c.coarse { stats.class("coarse-clock"); }
    if nontrivial
    {
        stats.nontrivial(drive::key_of(c));
    }
    stats.sample(nontrivial, || json!({
        "rules": w.model.rules.iter().map(|r| json!({"targets": r.targets, "sources": r.sources, "command": r.command_lines()})).collect::<Vec<_>>(),
        "prefix": c.prefix.iter().map(|o| format!("{:?}", o)).collect::<Vec<_>>(),
        "final": format!("{:?}", p.inv), "serial_steps": steps, "schedules_run": scheds.len(),
        "extra_schedules": c.scheds.iter().map(|s| format!("{:?}", s)).collect::<Vec<_>>(),
    }));
    Ok(())
}

// ------------------------------------------------------------------------------------
// C05 on arbitrary rule sets (cycles, duplicate targets, missing goals): whatever dependency analysis says,
// build and clean must come back

pub fn test_arbitrary_rules(c: &crate::verif::props::c12::SortCase, stats: &mut Stats) -> Result<(), String>
{
    use crate::verif::vsys::VerifSystem;
    use crate::verif::engine::{RecPrinter, summarize};
    let sys = VerifSystem::new(Clock::Distinct);
    let mut text = String::new();
    let mut all_targets = BTreeSet::new();
    for (t, _, _) in c.rules.iter() { for x in t { all_targets.insert(x.clone()); } }
    for (i, (t, s, _)) in c.rules.iter().enumerate()
    {
        for x in t { text.push_str(x); text.push('\n'); }
        text.push_str(":\n");
        for x in s
        {
            text.push_str(x);
            text.push('\n');
            if !all_targets.contains(x) && (i + x.len()) % 5 != 0
            {
                sys.h_write(x, b"leaf");
            }
        }
        text.push_str(":\n");
        let cmd: Vec<String> = t.iter().map(|x| format!("emit {} const K{}", x, i)).collect();
        text.push_str(&cmd.join(" && "));
        text.push_str("\n:\n\n");
    }
    sys.h_write("build.rules", text.as_bytes());
    let scheds = [Sched::Serial { highest: false }, Sched::Serial { highest: true }, Sched::Random { seed: c.shuffle_seed, switch_num: 8 }, Sched::Random { seed: c.shuffle_seed ^ 77, switch_num: 3 }];
    for (k, sch) in scheds.iter().enumerate()
    {
        for clean in [false, true]
        {
            let s2 = sys.fork();
            let goal = c.goal.clone();
            let taken = std::sync::Arc::new(std::sync::Mutex::new(0u32));
            let diverged = std::sync::Arc::new(std::sync::Mutex::new(false));
            let policy = engine::make_policy(sch, 0, taken, diverged);
            let out = crate::verif::sched::run_controlled(policy, false, move ||
            {
                let mut p = RecPrinter::new();
                if clean { crate::build::clean(s2, ".ruler", vec!["build.rules".to_string()], goal) }
                else { crate::build::build(s2, &mut p, crate::build::BuildParams::from_all(".ruler".to_string(), vec!["build.rules".to_string()], None, goal)) }
            });
            stats.count("arbitrary_rule_set_runs", 1);
            let what = if clean { "clean" } else { "build" };
            if let Some(d) = out.deadlock
            {
                return Err(format!("{} of an arbitrary rule set did not terminate (schedule #{}): {}; rules file:\n{}", what, k, d, text));
            }
            if !out.panics.is_empty()
            {
                return Err(format!("{} of an arbitrary rule set panicked: {}; rules file:\n{}", what, out.panics.join(" | "), text));
            }
            match out.result.map(|r| r.map_err(|e| summarize(&e)))
            {
                None => return Err(format!("{} of an arbitrary rule set did not return", what)),
                Some(Err(ErrSum::Sender)) | Some(Err(ErrSum::Receiver)) | Some(Err(ErrSum::Weird)) => return Err(format!("{} returned an internal channel/thread error; rules file:\n{}", what, text)),
                Some(Err(ErrSum::TopoSort(_))) => stats.class("arbitrary-rules-rejected-by-sort"),
                Some(_) => stats.class("arbitrary-rules-accepted"),
            }
        }
    }
    Ok(())
}

// ------------------------------------------------------------------------------------
// generators

fn prefix() -> impl Strategy<Value = Vec<Op>>
{
    let b = Op::Build { goal: None };
    prop_oneof![
        2 => Just(vec![]),                                                                      // fresh
        2 => Just(vec![b.clone()]),                                                             // fully built
        3 => Just(vec![b.clone(), Op::Clean { goal: None }]),                                   // cleaned
        2 => (any::<u16>(), 0u8..gen::N_CONTENTS).prop_map(|(leaf, content)| vec![Op::Build { goal: None }, Op::Edit { leaf, content }]),
        2 => any::<u16>().prop_map(|rule| vec![Op::Build { goal: None }, Op::Retag { rule }]),
        3 => (any::<u16>(), 0u8..gen::N_CONTENTS).prop_map(|(leaf, content)| vec![Op::Build { goal: None }, Op::Edit { leaf, content }, Op::Build { goal: None }, Op::Revert { leaf }]),
        2 => (any::<u16>(), 0u8..gen::N_CONTENTS).prop_map(|(leaf, content)| vec![Op::Build { goal: None }, Op::Edit { leaf, content }, Op::Build { goal: None }, Op::Clean { goal: None }, Op::Revert { leaf }]),
        // one rule displaces content that another rule wants back in the same build
        3 => (any::<u16>(), 0u8..gen::N_CONTENTS, any::<u16>(), 0u8..gen::N_CONTENTS).prop_map(|(l1, c1, l2, c2)| vec![Op::Build { goal: None }, Op::Edit { leaf: l1, content: c1 }, Op::Build { goal: None },
            Op::Edit { leaf: l2, content: c2 }, Op::Revert { leaf: l1 }]),
        3 => (any::<u16>(), 0u8..gen::N_CONTENTS, any::<u16>(), 0u8..gen::N_CONTENTS).prop_map(|(l1, c1, l2, c2)| vec![Op::Build { goal: None }, Op::Edit { leaf: l1, content: c1 }, Op::Build { goal: None },
            Op::Revert { leaf: l1 }, Op::Edit { leaf: l2, content: c2 }]),
        2 => (any::<u16>(), any::<u16>()).prop_map(|(a, b)| vec![Op::Build { goal: None }, Op::Swap { a, b }, Op::Build { goal: None }, Op::Swap { a, b }]),
        // a stale file at a target path whose bytes the cache already holds
        2 => (any::<u16>(), 0u8..gen::N_CONTENTS).prop_map(|(t, content)| vec![Op::Build { goal: None }, Op::Tamper { t, content }, Op::Build { goal: None }, Op::Tamper { t, content }]),
        // a cleaned workspace whose output directory the user removed
        2 => any::<u16>().prop_map(|d| vec![Op::Build { goal: None }, Op::Clean { goal: None }, Op::RemoveDir { d }]),
        3 => gen::ops(OpMix { rule_edits: true, ruler_dir_damage: false, cleans: true, delete_leaf: false, swaps: 1, dir_ops: 1, orphan: false }, 6),
    ]
}

pub fn strategy(which: Which, max_rules: usize, extra_scheds: usize) -> impl Strategy<Value = SchedCase>
{
    let (fail_max, missing_max) = match which
    {
        Which::C03 => (1usize, 0usize),
        Which::C04 => (3, 2),
        Which::C05 => (3, 2),
        Which::C06 => (1, 1),
    };
    let allow_failon = true;
    (
        gen::graph_spec(max_rules, allow_failon),
        prefix(),
        proptest::collection::vec((any::<u16>(), 0u8..4), if which == Which::C04 { 1..=fail_max.max(1) } else { 0..=fail_max }),
        proptest::collection::vec(any::<u16>(), 0..=missing_max),
        prop_oneof![3 => Just(None), 1 => any::<u16>().prop_map(Some)],
        if which == Which::C05 || which == Which::C06 { prop_oneof![4 => Just(false), 1 => Just(true)].boxed() } else { Just(false).boxed() },
        proptest::collection::vec(gen::sched(), extra_scheds..=extra_scheds),
    ).prop_map(move |(mut graph, prefix, fail, missing, goal, clean, scheds)|
    {
        if which == Which::C06 && graph.name_seed % 2 == 0
        {
            // directed shape: few leaves with equal contents, every rule copies one leaf to each of its targets, so that what
            // one rule displaces is byte-identical to what another rule wants back
            graph.n_leaves = 2 + (graph.name_seed / 2 % 2) as u8;
            let c0 = graph.leaf_contents.get(0).cloned().unwrap_or(0);
            for c in graph.leaf_contents.iter_mut() { *c = c0; }
            graph.rules.truncate(4);
            let nl = graph.n_leaves as u32;
            let mut earlier_targets = 0u32;
            for (i, r) in graph.rules.iter_mut().enumerate()
            {
                r.kinds = vec![2, 2, 2];
                r.failon = None;
                r.n_targets = r.n_targets.min(2).max(1);
                // candidates are the leaves followed by every earlier target: aim at leaf (i mod leaves)
                let len = nl + earlier_targets;
                let leaf = i as u32 % nl;
                r.srcs = vec![((leaf * 65536 + 65535) / len + 1).min(65535) as u16];
                earlier_targets += r.n_targets as u32;
            }
        }
        else if which == Which::C06
        {
            // bias: byte-identical outputs of unrelated rules (copy/const kinds) so cache entries are shared
            for r in graph.rules.iter_mut()
            {
                for k in r.kinds.iter_mut()
                {
                    if *k == 0 { *k = 2; }
                }
            }
            for c in graph.leaf_contents.iter_mut()
            {
                *c %= 2;
            }
        }
        if which == Which::C03 && graph.render_seed % 2 == 0
        {
            // denser rule-to-rule wiring: aim the source picks at the upper part of the candidate list (targets of
            // earlier rules rather than leaves), so that shapes like G<-{P,S}, P<-{C,Q}, C<-{S} occur
            for (i, r) in graph.rules.iter_mut().enumerate()
            {
                if i > 0
                {
                    for p in r.srcs.iter_mut() { *p = 0x8000 | (*p >> 1); }
                }
            }
        }
        // a removed directory only matters when targets live in directories
        if prefix.iter().any(|o| matches!(o, Op::RemoveDir { .. } | Op::MakeDir { .. })) && (which == Which::C06 || graph.name_seed % 2 == 0)
        {
            graph.dirs = true;
        }
        let mut goal = if which == Which::C03 && goal.is_none() && graph.name_seed % 3 == 0 { Some(graph.name_seed.wrapping_mul(31)) } else { goal };
        if which == Which::C03 && graph.name_seed % 8 == 1
        {
            // directed shape (the generated-header pattern): S <- leaf, Q <- leaf, C <- {S}, P <- {C, Q}, G <- {P, S}, built with
            // goal G: the DFS meets S first as an unvisited sibling of an ancestor and needs it again further down
            let aim = |j: usize, len: usize| -> u16 { (((j * 65536) + len - 1) / len).min(65535) as u16 };
            graph.n_leaves = 2;
            graph.two_files = false;
            let proto = graph.rules[0].clone();
            let mk = |srcs: Vec<u16>| { let mut r = proto.clone(); r.n_targets = 1; r.kinds = vec![0, 0, 0]; r.failon = None; r.empty_cmd = false; r.multi_line = false; r.srcs = srcs; r };
            // candidates of rule i: [l0, l1, t(S), t(Q), t(C), t(P)][..2 + i]
            graph.rules = vec![
                mk(vec![aim(0, 2)]),                  // S <- l0
                mk(vec![aim(1, 3)]),                  // Q <- l1
                mk(vec![aim(2, 4)]),                  // C <- S
                mk(vec![aim(4, 5), aim(3, 5)]),       // P <- C, Q
                mk(vec![aim(5, 6), aim(2, 6)]),       // G <- P, S
            ];
            goal = Some(aim(4, 5));                  // G's target among the five targets
        }
        let coarse = which == Which::C06 && graph.render_seed % 3 == 1;
        SchedCase { graph, prefix, fail, missing, goal, clean, scheds, coarse }
    })
}

macro_rules! sched_prop
{
    ($which:expr, $test:ident, $run:ident, $replay:ident, $salt:expr, $quick:expr, $thorough:expr, $rule:expr, $assume:expr) =>
    {
        pub fn $run(ctx: &Ctx) -> Report
        {
            let mut rep = Report::new("exploration", $rule);
            for a in $assume.iter()
            {
                rep.assume(a);
            }
            let (cases, max_rules, extra, enum_budget) = ctx.tier.pick($quick, $thorough);
            let budget = Budget { enum_budget };
            rep.absorb(drive::drive_opts(ctx, $salt, cases, 300, || strategy($which, max_rules, extra), |c, st| test_case($which, &budget, c, st)));
            rep
        }

        pub fn $replay(ctx: &Ctx, case: &serde_json::Value) -> Result<(), String>
        {
            let c: SchedCase = drive::parse_case(case)?;
            let mut st = Stats::default();
            // replay with the larger enumeration budget so that the tier that found it is covered
            let budget = Budget { enum_budget: 4000 };
            let _ = ctx;
            test_case($which, &budget, &c, &mut st)
        }
    };
}

sched_prop!(Which::C03, test_c03, run_c03, replay_c03, 3, (1200u32, 6usize, 12usize, 200usize), (8000u32, 9usize, 60usize, 1600usize),
    "scenario = graph x initial state (fresh / built / cleaned / built-then-edited / built-then-rule-edited / revert-after-two-builds / random short history) x final \
     build (with or without goal); each scenario is run from the same forked state under 2 serial schedules, every single-preemption schedule (steps x up to 3 alternative threads; sampled \
     evenly when over budget) and generated preemption-bounded / random-walk / PCT schedules. Oracle at every execute_command entry: each declared source exists with its \
     reference content and is never modified later in the invocation; plus C01 and the status lines on every run. Non-trivial = >=2 rules with a rule-to-rule edge and at \
     least one preemption actually taken; distinct by case hash",
    ["interleavings at yield points only: channel send/recv, spawn/join, thread exit and every System call; commands are atomic", "at most one failing rule per scenario here (placements of failures are C04's domain); a command that starts although one of its sources cannot be produced is a violation"]);

sched_prop!(Which::C04, test_c04, run_c04, replay_c04, 4, (2500u32, 6usize, 8usize, 80usize), (20000u32, 9usize, 30usize, 600usize),
    "scenario = graph x 1-3 failing rules (failif flag / always fail / one target never generated / failon leaf content) x 0-2 missing leaves x initial state x schedules \
     (as C03). Oracle: WorkErrors with exactly one FileNotFound per missing leaf and one CommandExecutedButErrored / TargetFileNotGenerated(ungenerated target) per failing \
     rule that has no failing ancestor; no command of any descendant in the log; every rule independent of the failures equals the reference; then flags removed / leaves \
     re-created and the next build must run every repaired rule again and satisfy C01. Non-trivial = the failure has a dependent (or a leaf is missing), an independent rule \
     had work to do, and a preemption was taken; distinct by case hash",
    ["a rule that is up to date and never runs is not expected to fail; error order is not compared", "a failing command writes nothing"]);

pub fn run_c05(ctx: &Ctx) -> Report
{
    let mut rep = run_c05_scenarios(ctx);
    let cases = ctx.tier.pick(3000u32, 40000);
    let mut extra = drive::drive(ctx, 55, cases, || crate::verif::props::c12::strategy(10), |c, st| { st.class("arbitrary-rule-set"); test_arbitrary_rules(c, st) });
    for f in extra.1.iter_mut()
    {
        f.case = json!({ "arbitrary_rules": f.case });
    }
    rep.absorb(extra);
    rep
}

pub fn replay_c05(ctx: &Ctx, case: &serde_json::Value) -> Result<(), String>
{
    if let Some(inner) = case.get("arbitrary_rules")
    {
        let c: crate::verif::props::c12::SortCase = drive::parse_case(inner)?;
        let mut st = Stats::default();
        return test_arbitrary_rules(&c, &mut st);
    }
    replay_c05_scenarios(ctx, case)
}

sched_prop!(Which::C05, test_c05, run_c05_scenarios, replay_c05_scenarios, 5, (1600u32, 7usize, 16usize, 240usize), (12000u32, 10usize, 80usize, 2000usize),
    "scenario = accepted graph (fan-in/out, diamonds, triangles, components, multi-target edges, goal-restricted) x failing rules and missing leaves x initial state x final \
     build OR clean x schedules (2 serial, single-preemption enumeration, generated preemption-bounded / random-walk / PCT). Oracle: the scheduler never finds every \
     unfinished thread blocked, no panic in any thread or at the call boundary, and the result is not SenderError / ReceiverError / Weird. Non-trivial = a preemption was taken \
     and the run had failing rules, a send to a dropped receiver, a receive on a closed channel or a join on an unfinished thread; distinct by case hash. \
     In addition arbitrary generated rule sets (C12's generator: cycles, self-dependence, duplicate targets, missing goals, missing leaves) are written to a rules file and \
     built and cleaned under 4 schedules each: whatever dependency analysis answers, the call must return (class arbitrary-rule-set, counter arbitrary_rule_set_runs)",
    ["deadlock is decided from the complete blocked-on relation of the scheduler shim, never from elapsed time"]);

sched_prop!(Which::C06, test_c06, run_c06, replay_c06, 6, (1500u32, 6usize, 12usize, 240usize), (10000u32, 9usize, 60usize, 2000usize),
    "scenario = graph biased toward byte-identical outputs of unrelated rules x initial state biased toward cleaned / reverted states (several targets share one cache \
     entry, targets displaced and restored in the same build) x final build or clean x schedules (2 serial, single-preemption enumeration, generated). Oracle: verdict and the \
     bytes and existence of every file outside the ruler directory (except targets of rules that fail or are cancelled in this build) equal the serial run for every schedule; cache stays content-addressed and nothing is lost on every \
     run. Non-trivial = two threads touched the same cache entry in some run and a preemption was taken; distinct by case hash",
    ["only the observables the property names are compared: not which rule won a restore, not execution counts, not modification times"]);
