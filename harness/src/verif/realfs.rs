//! Real-file-system end-to-end anchor: the built binary (`rv` falling through to ruler's
//! own main) driven in a scratch directory with /bin/sh commands.

use std::collections::BTreeMap;
use std::io::{Read, Write};
use std::net::TcpStream;
use std::path::{Path, PathBuf};
use std::process::{Child, Command, Stdio};
use std::sync::atomic::{AtomicU64, Ordering};
use std::time::{Duration, Instant};

use super::gen::{self, GraphSpec, Op};
use super::model::Model;

static COUNTER: AtomicU64 = AtomicU64::new(0);

pub struct RealWorld
{
    pub dir: PathBuf,
    pub model: Model,
    pub leaves: Vec<String>,
    pub leaf_history: BTreeMap<String, Vec<Vec<u8>>>,
    exe: PathBuf,
}

#[derive(Debug, Clone)]
pub struct RunOut
{
    pub stdout: String,
    pub stderr: String,
    pub code: Option<i32>,
}

impl RunOut
{
    /// ruler exits 0 even on error; a failed build/clean writes its error to stderr
    pub fn reported_success(&self) -> bool
    {
        self.code == Some(0) && self.stderr.trim().is_empty()
    }
}

pub type RealSnap = BTreeMap<String, (Vec<u8>, bool)>;

fn pause()
{
    // user actions are spaced so that real mtimes differ at ruler's microsecond resolution even on
    // kernels whose file timestamps advance only once per tick
    std::thread::sleep(Duration::from_millis(12));
}

impl RealWorld
{
    pub fn new(g: &GraphSpec) -> Result<RealWorld, String>
    {
        let (mut model, _names) = gen::build_model(g);
        for r in model.rules.iter_mut()
        {
            r.shell = true;
        }
        let n = COUNTER.fetch_add(1, Ordering::SeqCst);
        let dir = std::env::temp_dir().join(format!("rv-real-{}-{}", std::process::id(), n));
        let _ = std::fs::remove_dir_all(&dir);
        std::fs::create_dir_all(&dir).map_err(|e| format!("cannot create scratch dir {:?}: {}", dir, e))?;
        let exe = std::env::current_exe().map_err(|e| format!("{}", e))?;
        let leaves: Vec<String> = model.files.keys().cloned().collect();
        let w = RealWorld { dir, model, leaves, leaf_history: BTreeMap::new(), exe };
        for d in w.model.dirs.iter()
        {
            std::fs::create_dir_all(w.dir.join(d)).map_err(|e| format!("{}", e))?;
        }
        for (p, c) in w.model.files.clone().iter()
        {
            w.write(p, c)?;
        }
        w.write("bystander.txt", b"keep me")?;
        w.sync_rules()?;
        Ok(w)
    }

    pub fn path(&self, p: &str) -> PathBuf
    {
        self.dir.join(p)
    }

    pub fn write(&self, p: &str, data: &[u8]) -> Result<(), String>
    {
        pause();
        std::fs::write(self.path(p), data).map_err(|e| format!("write {}: {}", p, e))
    }

    pub fn read(&self, p: &str) -> Option<Vec<u8>>
    {
        std::fs::read(self.path(p)).ok()
    }

    pub fn remove(&self, p: &str) -> bool
    {
        pause();
        let full = self.path(p);
        if full.is_dir() { std::fs::remove_dir_all(full).is_ok() } else { std::fs::remove_file(full).is_ok() }
    }

    pub fn sync_rules(&self) -> Result<(), String>
    {
        for (fi, name) in self.model.rule_files.iter().enumerate()
        {
            let text = self.model.render_file(fi);
            if self.read(name).map(|c| c != text.as_bytes()).unwrap_or(true)
            {
                self.write(name, text.as_bytes())?;
            }
        }
        Ok(())
    }

    fn base_cmd(&self) -> Command
    {
        let mut c = Command::new(&self.exe);
        c.current_dir(&self.dir);
        for f in self.model.rule_files.iter()
        {
            c.arg("--rules").arg(f);
        }
        c.arg("--directory").arg(".ruler");
        c.env_remove("VERIF_TRACE");
        c
    }

    pub fn run(&self, args: &[&str]) -> Result<RunOut, String>
    {
        pause();
        let mut c = self.base_cmd();
        c.args(args);
        let out = c.stdin(Stdio::null()).output().map_err(|e| format!("cannot run {:?}: {}", self.exe, e))?;
        Ok(RunOut { stdout: String::from_utf8_lossy(&out.stdout).to_string(), stderr: String::from_utf8_lossy(&out.stderr).to_string(), code: out.status.code() })
    }

    pub fn build(&self, goal: Option<&str>) -> Result<RunOut, String>
    {
        match goal
        {
            Some(g) => self.run(&["build", g]),
            None => self.run(&["build"]),
        }
    }

    pub fn clean(&self, goal: Option<&str>) -> Result<RunOut, String>
    {
        match goal
        {
            Some(g) => self.run(&["clean", g]),
            None => self.run(&["clean"]),
        }
    }

    pub fn snapshot(&self) -> RealSnap
    {
        fn walk(base: &Path, dir: &Path, out: &mut RealSnap)
        {
            if let Ok(rd) = std::fs::read_dir(dir)
            {
                for e in rd.flatten()
                {
                    let p = e.path();
                    if p.is_dir()
                    {
                        walk(base, &p, out);
                    }
                    else if let Ok(data) = std::fs::read(&p)
                    {
                        use std::os::unix::fs::PermissionsExt;
                        let exec = std::fs::metadata(&p).map(|m| m.permissions().mode() & 0o111 != 0).unwrap_or(false);
                        let rel = p.strip_prefix(base).unwrap().to_string_lossy().to_string();
                        out.insert(rel, (data, exec));
                    }
                }
            }
        }
        let mut out = RealSnap::new();
        walk(&self.dir, &self.dir, &mut out);
        out
    }

    pub fn goal_path(&self, g: Option<u16>) -> Option<String>
    {
        match g
        {
            None => None,
            Some(i) =>
            {
                let ts = self.model.all_targets();
                if ts.is_empty() { None } else { Some(ts[gen::pick(i, ts.len())].clone()) }
            }
        }
    }

    /// applies the simple user-level ops (edit, revert, swap, tamper, delete target); others are ignored
    pub fn apply_simple(&mut self, op: &Op) -> Result<bool, String>
    {
        match op
        {
            Op::Edit { leaf, content } =>
            {
                let l = self.leaves[gen::pick(*leaf, self.leaves.len())].clone();
                let c = gen::content(*content);
                if let Some(old) = self.model.files.get(&l) { self.leaf_history.entry(l.clone()).or_default().push(old.clone()); }
                self.write(&l, &c)?;
                self.model.files.insert(l, c);
                Ok(true)
            }
            Op::Revert { leaf } =>
            {
                let l = self.leaves[gen::pick(*leaf, self.leaves.len())].clone();
                let cur = self.model.files.get(&l).cloned();
                let prev = self.leaf_history.get(&l).and_then(|h| h.iter().rev().find(|c| Some(*c) != cur.as_ref()).cloned());
                match prev
                {
                    Some(p) =>
                    {
                        if let Some(old) = cur { self.leaf_history.entry(l.clone()).or_default().push(old); }
                        self.write(&l, &p)?;
                        self.model.files.insert(l, p);
                        Ok(true)
                    }
                    None => Ok(false),
                }
            }
            Op::Tamper { t, content } | Op::TamperOld { t, content } =>
            {
                let ts = self.model.all_targets();
                let p = ts[gen::pick(*t, ts.len())].clone();
                self.write(&p, &gen::content(*content))?;
                Ok(true)
            }
            Op::DeleteTarget { t } =>
            {
                let ts = self.model.all_targets();
                let p = ts[gen::pick(*t, ts.len())].clone();
                Ok(self.remove(&p))
            }
            _ => Ok(false),
        }
    }

    pub fn spawn_server(&self, port: u16) -> Result<Child, String>
    {
        let mut c = Command::new(&self.exe);
        c.current_dir(&self.dir);
        c.arg("--directory").arg(".ruler").arg("serve").arg(format!("{}", port));
        c.stdin(Stdio::null()).stdout(Stdio::null()).stderr(Stdio::null());
        c.spawn().map_err(|e| format!("cannot spawn server: {}", e))
    }
}

impl Drop for RealWorld
{
    fn drop(&mut self)
    {
        let _ = std::fs::remove_dir_all(&self.dir);
    }
}

pub fn free_port() -> Option<u16>
{
    std::net::TcpListener::bind("127.0.0.1:0").ok().and_then(|l| l.local_addr().ok()).map(|a| a.port())
}

pub fn wait_for_port(port: u16, child: &mut Child, limit: Duration) -> Result<(), String>
{
    let t0 = Instant::now();
    loop
    {
        if let Ok(Some(st)) = child.try_wait()
        {
            return Err(format!("server exited early: {:?}", st));
        }
        if TcpStream::connect(("127.0.0.1", port)).is_ok()
        {
            return Ok(());
        }
        if t0.elapsed() > limit
        {
            return Err("server did not start listening in time".to_string());
        }
        std::thread::sleep(Duration::from_millis(15));
    }
}

#[derive(Debug, Clone)]
pub struct HttpResp
{
    pub status: u16,
    pub body: Vec<u8>,
}

/// Minimal HTTP/1.1 client: one request per connection, `Connection: close`.
pub fn http_get(port: u16, target: &str) -> Result<HttpResp, String>
{
    let mut s = TcpStream::connect(("127.0.0.1", port)).map_err(|e| format!("connect: {}", e))?;
    s.set_read_timeout(Some(Duration::from_secs(10))).ok();
    s.set_write_timeout(Some(Duration::from_secs(10))).ok();
    let req = format!("GET {} HTTP/1.1\r\nHost: 127.0.0.1:{}\r\nConnection: close\r\nAccept: */*\r\n\r\n", target, port);
    s.write_all(req.as_bytes()).map_err(|e| format!("send: {}", e))?;
    let mut buf = vec![];
    s.read_to_end(&mut buf).map_err(|e| format!("receive: {}", e))?;
    let pos = buf.windows(4).position(|w| w == b"\r\n\r\n").ok_or_else(|| format!("no header terminator in {} bytes", buf.len()))?;
    let head = String::from_utf8_lossy(&buf[..pos]).to_string();
    let mut lines = head.split("\r\n");
    let status_line = lines.next().unwrap_or("");
    let status: u16 = status_line.split(' ').nth(1).and_then(|x| x.parse().ok()).ok_or_else(|| format!("bad status line {:?}", status_line))?;
    let mut body = buf[pos + 4..].to_vec();
    let mut chunked = false;
    let mut clen: Option<usize> = None;
    for l in lines
    {
        let low = l.to_ascii_lowercase();
        if low.starts_with("transfer-encoding:") && low.contains("chunked") { chunked = true; }
        if low.starts_with("content-length:") { clen = low["content-length:".len()..].trim().parse().ok(); }
    }
    if chunked
    {
        let mut out = vec![];
        let mut rest = &body[..];
        loop
        {
            let p = match rest.windows(2).position(|w| w == b"\r\n") { Some(p) => p, None => break };
            let n = usize::from_str_radix(String::from_utf8_lossy(&rest[..p]).trim(), 16).unwrap_or(0);
            if n == 0 || rest.len() < p + 2 + n { break; }
            out.extend_from_slice(&rest[p + 2..p + 2 + n]);
            rest = &rest[(p + 2 + n + 2).min(rest.len())..];
        }
        body = out;
    }
    else if let Some(n) = clen
    {
        body.truncate(n);
    }
    Ok(HttpResp { status, body })
}
