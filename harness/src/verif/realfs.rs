//! Real-file-system end-to-end anchor: the built binary (`rv` falling through to ruler's
//! own main) driven in a scratch directory with /bin/sh commands.

use std::collections::BTreeMap;
use std::io::{Read, Write};
use std::net::TcpStream;
use std::path::{Path, PathBuf};
use std::process::{Child, Command, Stdio};
use std::sync::atomic::{AtomicU64, Ordering};
use std::time::{Duration, Instant};

use super::gen::{self, GraphSpec, Op};
use super::model::Model;

static COUNTER: AtomicU64 = AtomicU64::new(0);

pub struct RealWorld
{
    pub dir: PathBuf,
    pub model: Model,
    pub leaves: Vec<String>,
    pub leaf_history: BTreeMap<String, Vec<Vec<u8>>>,
    exe: PathBuf,
}

#[derive(Debug, Clone)]
pub struct RunOut
{
    pub stdout: String,
    pub stderr: String,
    pub code: Option<i32>,
}

impl RunOut
{
    /// ruler exits 0 even on error; a failed build/clean writes its error to stderr
    pub fn reported_success(&self) -> bool
    {
        self.code == Some(0) && self.stderr.trim().is_empty()
    }
}

pub type RealSnap = BTreeMap<String, (Vec<u8>, bool)>;

fn pause()
{
    // user actions are spaced so that real mtimes differ at ruler's microsecond resolution even on
    // kernels whose file timestamps advance only once per tick
    std::thread::sleep(Duration::from_millis(12));
}

impl RealWorld
{
    pub fn new(g: &GraphSpec) -> Result<RealWorld, String>
    {
        let (mut model, _names) = gen::build_model(g);
        for r in model.rules.iter_mut()
        {
            r.shell = true;
        }
        let n = COUNTER.fetch_add(1, Ordering::SeqCst);
        let dir = std::env::temp_dir().join(format!("rv-real-{}-{}", std::process::id(), n));
        let _ = std::fs::remove_dir_all(&dir);
        std::fs::create_dir_all(&dir).map_err(|e| format!("cannot create scratch dir {:?}: {}", dir, e))?;
        let exe = std::env::current_exe().map_err(|e| format!("{}", e))?;
        let leaves: Vec<String> = model.files.keys().cloned().collect();
        let w = RealWorld { dir, model, leaves, leaf_history: BTreeMap::new(), exe };
        for d in w.model.dirs.iter()
        {
            std::fs::create_dir_all(w.dir.join(d)).map_err(|e| format!("{}", e))?;
        }
        for (p, c) in w.model.files.clone().iter()
        {
            w.write(p, c)?;
        }
        w.write("bystander.txt", b"keep me")?;
        w.sync_rules()?;
        Ok(w)
    }

    pub fn path(&self, p: &str) -> PathBuf
    {
        self.dir.join(p)
    }

    pub fn write(&self, p: &str, data: &[u8]) -> Result<(), String>
    {
        pause();
        // the user replaces the file: a symbolic link at that path is replaced, not written through
        if std::fs::symlink_metadata(self.path(p)).map(|m| m.file_type().is_symlink()).unwrap_or(false)
        {
            let _ = std::fs::remove_file(self.path(p));
        }
        std::fs::write(self.path(p), data).map_err(|e| format!("write {}: {}", p, e))
    }

    pub fn read(&self, p: &str) -> Option<Vec<u8>>
    {
        std::fs::read(self.path(p)).ok()
    }

    pub fn remove(&self, p: &str) -> bool
    {
        pause();
        let full = self.path(p);
        if full.is_dir() { std::fs::remove_dir_all(full).is_ok() } else { std::fs::remove_file(full).is_ok() }
    }

    pub fn sync_rules(&self) -> Result<(), String>
    {
        for (fi, name) in self.model.rule_files.iter().enumerate()
        {
            let text = self.model.render_file(fi);
            if self.read(name).map(|c| c != text.as_bytes()).unwrap_or(true)
            {
                self.write(name, text.as_bytes())?;
            }
        }
        Ok(())
    }

    fn base_cmd(&self) -> Command
    {
        let mut c = Command::new(&self.exe);
        c.current_dir(&self.dir);
        for f in self.model.rule_files.iter()
        {
            c.arg("--rules").arg(f);
        }
        c.arg("--directory").arg(".ruler");
        c.env_remove("VERIF_TRACE");
        c
    }

    pub fn run(&self, args: &[&str]) -> Result<RunOut, String>
    {
        pause();
        let mut c = self.base_cmd();
        c.args(args);
        // output goes to files, not pipes: whatever the invocation prints, the harness can never be the one that blocks it
        let n = COUNTER.fetch_add(1, Ordering::SeqCst);
        let out_path = std::env::temp_dir().join(format!("rv-out-{}-{}", std::process::id(), n));
        let err_path = std::env::temp_dir().join(format!("rv-err-{}-{}", std::process::id(), n));
        let of = std::fs::File::create(&out_path).map_err(|e| format!("{}", e))?;
        let ef = std::fs::File::create(&err_path).map_err(|e| format!("{}", e))?;
        let mut child = c.stdin(Stdio::null()).stdout(of).stderr(ef).spawn().map_err(|e| format!("cannot run {:?}: {}", self.exe, e))?;
        let t0 = Instant::now();
        let mut last_cpu = u64::MAX;
        let mut idle_samples = 0;
        let status = loop
        {
            match child.try_wait()
            {
                Ok(Some(st)) => break Ok(st),
                Ok(None) => {}
                Err(e) => break Err(format!("wait: {}", e)),
            }
            let el = t0.elapsed();
            if el > Duration::from_secs(20)
            {
                // not a time limit: the invocation is declared hung only when neither it nor any process below it has used
                // CPU time and none is runnable over 8 consecutive samples (16 s); a slow machine keeps it "busy"
                let (cpu, runnable) = tree_cpu(child.id());
                if cpu == last_cpu && !runnable { idle_samples += 1; } else { idle_samples = 0; }
                last_cpu = cpu;
                if idle_samples >= 8
                {
                    kill_tree(child.id());
                    let _ = child.kill();
                    let _ = child.wait();
                    break Err(format!("`ruler {}` did not return: after {} s the process and everything below it sit idle (no CPU time used, nothing runnable) — a hang", args.join(" "), el.as_secs()));
                }
                if el > Duration::from_secs(900)
                {
                    kill_tree(child.id());
                    let _ = child.kill();
                    let _ = child.wait();
                    break Err("harness: invocation still busy after 900 s (inconclusive)".to_string());
                }
                std::thread::sleep(Duration::from_secs(2));
            }
            else
            {
                std::thread::sleep(Duration::from_millis(if el < Duration::from_millis(200) { 2 } else { 20 }));
            }
        };
        let stdout = String::from_utf8_lossy(&std::fs::read(&out_path).unwrap_or_default()).to_string();
        let stderr = String::from_utf8_lossy(&std::fs::read(&err_path).unwrap_or_default()).to_string();
        let _ = std::fs::remove_file(&out_path);
        let _ = std::fs::remove_file(&err_path);
        let st = status?;
        Ok(RunOut { stdout, stderr, code: st.code() })
    }

    pub fn build(&self, goal: Option<&str>) -> Result<RunOut, String>
    {
        match goal
        {
            Some(g) => self.run(&["build", g]),
            None => self.run(&["build"]),
        }
    }

    pub fn clean(&self, goal: Option<&str>) -> Result<RunOut, String>
    {
        match goal
        {
            Some(g) => self.run(&["clean", g]),
            None => self.run(&["clean"]),
        }
    }

    pub fn snapshot(&self) -> RealSnap
    {
        fn walk(base: &Path, dir: &Path, out: &mut RealSnap)
        {
            if let Ok(rd) = std::fs::read_dir(dir)
            {
                for e in rd.flatten()
                {
                    let p = e.path();
                    if p.is_dir()
                    {
                        walk(base, &p, out);
                    }
                    else if let Ok(data) = std::fs::read(&p)
                    {
                        use std::os::unix::fs::PermissionsExt;
                        let exec = std::fs::metadata(&p).map(|m| m.permissions().mode() & 0o111 != 0).unwrap_or(false);
                        let rel = p.strip_prefix(base).unwrap().to_string_lossy().to_string();
                        out.insert(rel, (data, exec));
                    }
                }
            }
        }
        let mut out = RealSnap::new();
        walk(&self.dir, &self.dir, &mut out);
        out
    }

    /// (modification time in ns, permission bits) of every regular file or link-to-file below the scratch directory
    pub fn stat_all(&self) -> BTreeMap<String, (u128, u32)>
    {
        fn walk(base: &Path, dir: &Path, out: &mut BTreeMap<String, (u128, u32)>)
        {
            if let Ok(rd) = std::fs::read_dir(dir)
            {
                for e in rd.flatten()
                {
                    let p = e.path();
                    if p.is_dir() { walk(base, &p, out); }
                    else if let Ok(m) = std::fs::metadata(&p)
                    {
                        use std::os::unix::fs::PermissionsExt;
                        let t = m.modified().ok().and_then(|t| t.duration_since(std::time::UNIX_EPOCH).ok()).map(|d| d.as_nanos()).unwrap_or(0);
                        out.insert(p.strip_prefix(base).unwrap().to_string_lossy().to_string(), (t, m.permissions().mode() & 0o7777));
                    }
                }
            }
        }
        let mut out = BTreeMap::new();
        walk(&self.dir, &self.dir, &mut out);
        out
    }

    pub fn goal_path(&self, g: Option<u16>) -> Option<String>
    {
        match g
        {
            None => None,
            Some(i) =>
            {
                let ts = self.model.all_targets();
                if ts.is_empty() { None } else { Some(ts[gen::pick(i, ts.len())].clone()) }
            }
        }
    }

    /// applies the simple user-level ops (edit, revert, swap, tamper, delete target); others are ignored
    pub fn apply_simple(&mut self, op: &Op) -> Result<bool, String>
    {
        match op
        {
            Op::Edit { leaf, content } =>
            {
                let l = self.leaves[gen::pick(*leaf, self.leaves.len())].clone();
                let c = gen::content(*content);
                if let Some(old) = self.model.files.get(&l) { self.leaf_history.entry(l.clone()).or_default().push(old.clone()); }
                self.write(&l, &c)?;
                self.model.files.insert(l, c);
                Ok(true)
            }
            Op::Revert { leaf } =>
            {
                let l = self.leaves[gen::pick(*leaf, self.leaves.len())].clone();
                let cur = self.model.files.get(&l).cloned();
                let prev = self.leaf_history.get(&l).and_then(|h| h.iter().rev().find(|c| Some(*c) != cur.as_ref()).cloned());
                match prev
                {
                    Some(p) =>
                    {
                        if let Some(old) = cur { self.leaf_history.entry(l.clone()).or_default().push(old); }
                        self.write(&l, &p)?;
                        self.model.files.insert(l, p);
                        Ok(true)
                    }
                    None => Ok(false),
                }
            }
            Op::Tamper { t, content } | Op::TamperOld { t, content } =>
            {
                let ts = self.model.all_targets();
                let p = ts[gen::pick(*t, ts.len())].clone();
                self.write(&p, &gen::content(*content))?;
                Ok(true)
            }
            Op::DeleteTarget { t } =>
            {
                let ts = self.model.all_targets();
                let p = ts[gen::pick(*t, ts.len())].clone();
                Ok(self.remove(&p))
            }
            _ => Ok(false),
        }
    }

    pub fn spawn_server(&self, port: u16) -> Result<Child, String>
    {
        let mut c = Command::new(&self.exe);
        c.current_dir(&self.dir);
        c.arg("--directory").arg(".ruler").arg("serve").arg(format!("{}", port));
        c.stdin(Stdio::null()).stdout(Stdio::null()).stderr(Stdio::null());
        c.spawn().map_err(|e| format!("cannot spawn server: {}", e))
    }
}

impl Drop for RealWorld
{
    fn drop(&mut self)
    {
        let _ = std::fs::remove_dir_all(&self.dir);
    }
}

/// (sum of utime+stime clock ticks, any thread runnable or in disk wait) over the process `pid` and all its descendants
fn tree_cpu(pid: u32) -> (u64, bool)
{
    let mut total = 0u64;
    let mut runnable = false;
    let mut todo = vec![pid];
    let mut seen = std::collections::BTreeSet::new();
    while let Some(p) = todo.pop()
    {
        if !seen.insert(p) { continue; }
        if let Ok(tasks) = std::fs::read_dir(format!("/proc/{}/task", p))
        {
            for t in tasks.flatten()
            {
                if let Ok(stat) = std::fs::read_to_string(t.path().join("stat"))
                {
                    // fields after the command name in parentheses: state is the first, utime/stime the 12th and 13th
                    if let Some(pos) = stat.rfind(')')
                    {
                        let f: Vec<&str> = stat[pos + 1..].split_whitespace().collect();
                        if f.len() > 13
                        {
                            if f[0] == "R" || f[0] == "D" { runnable = true; }
                            total += f[11].parse::<u64>().unwrap_or(0) + f[12].parse::<u64>().unwrap_or(0);
                        }
                    }
                }
                if let Ok(kids) = std::fs::read_to_string(t.path().join("children"))
                {
                    todo.extend(kids.split_whitespace().filter_map(|k| k.parse::<u32>().ok()));
                }
            }
        }
    }
    (total, runnable)
}

fn kill_tree(pid: u32)
{
    let mut todo = vec![pid];
    let mut all = vec![];
    while let Some(p) = todo.pop()
    {
        if all.contains(&p) { continue; }
        all.push(p);
        if let Ok(tasks) = std::fs::read_dir(format!("/proc/{}/task", p))
        {
            for t in tasks.flatten()
            {
                if let Ok(kids) = std::fs::read_to_string(t.path().join("children"))
                {
                    todo.extend(kids.split_whitespace().filter_map(|k| k.parse::<u32>().ok()));
                }
            }
        }
    }
    for p in all.iter().skip(1)
    {
        let _ = Command::new("kill").arg("-9").arg(format!("{}", p)).stdout(Stdio::null()).stderr(Stdio::null()).status();
    }
}

pub fn free_port() -> Option<u16>
{
    std::net::TcpListener::bind("127.0.0.1:0").ok().and_then(|l| l.local_addr().ok()).map(|a| a.port())
}

pub fn wait_for_port(port: u16, child: &mut Child, limit: Duration) -> Result<(), String>
{
    let t0 = Instant::now();
    loop
    {
        if let Ok(Some(st)) = child.try_wait()
        {
            return Err(format!("server exited early: {:?}", st));
        }
        if TcpStream::connect(("127.0.0.1", port)).is_ok()
        {
            return Ok(());
        }
        if t0.elapsed() > limit
        {
            return Err("server did not start listening in time".to_string());
        }
        std::thread::sleep(Duration::from_millis(15));
    }
}

#[derive(Debug, Clone)]
pub struct HttpResp
{
    pub status: u16,
    pub body: Vec<u8>,
}

/// Minimal HTTP/1.1 client: one request per connection, `Connection: close`.
pub fn http_get(port: u16, target: &str) -> Result<HttpResp, String>
{
    let mut s = TcpStream::connect(("127.0.0.1", port)).map_err(|e| format!("connect: {}", e))?;
    s.set_read_timeout(Some(Duration::from_secs(10))).ok();
    s.set_write_timeout(Some(Duration::from_secs(10))).ok();
    let req = format!("GET {} HTTP/1.1\r\nHost: 127.0.0.1:{}\r\nConnection: close\r\nAccept: */*\r\n\r\n", target, port);
    s.write_all(req.as_bytes()).map_err(|e| format!("send: {}", e))?;
    let mut buf = vec![];
    s.read_to_end(&mut buf).map_err(|e| format!("receive: {}", e))?;
    let pos = buf.windows(4).position(|w| w == b"\r\n\r\n").ok_or_else(|| format!("no header terminator in {} bytes", buf.len()))?;
    let head = String::from_utf8_lossy(&buf[..pos]).to_string();
    let mut lines = head.split("\r\n");
    let status_line = lines.next().unwrap_or("");
    let status: u16 = status_line.split(' ').nth(1).and_then(|x| x.parse().ok()).ok_or_else(|| format!("bad status line {:?}", status_line))?;
    let mut body = buf[pos + 4..].to_vec();
    let mut chunked = false;
    let mut clen: Option<usize> = None;
    for l in lines
    {
        let low = l.to_ascii_lowercase();
        if low.starts_with("transfer-encoding:") && low.contains("chunked") { chunked = true; }
        if low.starts_with("content-length:") { clen = low["content-length:".len()..].trim().parse().ok(); }
    }
    if chunked
    {
        let mut out = vec![];
        let mut rest = &body[..];
        loop
        {
            let p = match rest.windows(2).position(|w| w == b"\r\n") { Some(p) => p, None => break };
            let n = usize::from_str_radix(String::from_utf8_lossy(&rest[..p]).trim(), 16).unwrap_or(0);
            if n == 0 || rest.len() < p + 2 + n { break; }
            out.extend_from_slice(&rest[p + 2..p + 2 + n]);
            rest = &rest[(p + 2 + n + 2).min(rest.len())..];
        }
        body = out;
    }
    else if let Some(n) = clen
    {
        body.truncate(n);
    }
    Ok(HttpResp { status, body })
}
