pub use std::thread;
pub use std::sync::mpsc;
