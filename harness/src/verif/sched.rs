//! Deterministic scheduler shim: drop-in `thread` and `mpsc` for /repo/src/build.rs.
//!
//! Outside a controlled execution (no thread-local context) everything delegates to std.
//! Inside one, real OS threads are used but exactly one holds the baton; the baton moves
//! only at yield points (spawn, join, send, recv, thread exit, every VerifSystem call).
//! "No runnable thread while some thread is unfinished" is a deadlock, decided
//! structurally and never by a timeout.

use std::any::Any;
use std::cell::RefCell;
use std::collections::VecDeque;
use std::sync::{Arc, Condvar, Mutex, MutexGuard};

// ---------------------------------------------------------------------------------------
// policies

pub trait Policy: Send
{
    /// `runnable` is sorted ascending and non-empty; `current` is Some(id) when the yielding
    /// thread itself can continue.  Returns the id to run next (must be in `runnable`).
    fn choose(&mut self, runnable: &[usize], current: Option<usize>, step: u64) -> usize;

    /// As `choose`, with the tag of the operation the yielding thread is about to perform
    /// (e.g. "rename:.ruler/cache/<hash>"); default: ignore the tag.
    fn choose_tagged(&mut self, runnable: &[usize], current: Option<usize>, step: u64, _tag: &str) -> usize
    {
        self.choose(runnable, current, step)
    }
}

/// Serial baseline plus preemptions addressed by (thread, operation tag, occurrence): robust against the
/// renumbering of steps that an earlier preemption causes.
pub struct PreemptOnTag
{
    pub points: Vec<(usize, String, u32, u16)>,
    pub seen: std::collections::HashMap<(usize, String), u32>,
    pub taken: Arc<Mutex<u32>>,
}

impl Policy for PreemptOnTag
{
    fn choose(&mut self, runnable: &[usize], current: Option<usize>, _step: u64) -> usize
    {
        match current
        {
            Some(c) => c,
            None => runnable[0],
        }
    }

    fn choose_tagged(&mut self, runnable: &[usize], current: Option<usize>, step: u64, tag: &str) -> usize
    {
        if let Some(me) = current
        {
            if !tag.is_empty()
            {
                let n = self.seen.entry((me, tag.to_string())).or_insert(0);
                *n += 1;
                let occ = *n;
                for (t, g, o, c) in self.points.iter()
                {
                    if *t == me && *o == occ && g == tag
                    {
                        let others: Vec<usize> = runnable.iter().cloned().filter(|r| *r != me).collect();
                        if !others.is_empty()
                        {
                            *self.taken.lock().unwrap() += 1;
                            return others[(*c as usize) % others.len()];
                        }
                    }
                }
            }
        }
        self.choose(runnable, current, step)
    }
}

pub struct Serial
{
    pub highest: bool,
}

impl Policy for Serial
{
    fn choose(&mut self, runnable: &[usize], current: Option<usize>, _step: u64) -> usize
    {
        match current
        {
            Some(c) => c,
            None => if self.highest { *runnable.last().unwrap() } else { runnable[0] },
        }
    }
}

/// Serial baseline plus a bounded list of preemptions `(step, choice)`: at yield point
/// number `step` the baton goes to the `choice`-th other runnable thread (if any).
pub struct Preempt
{
    pub highest: bool,
    pub points: Vec<(u64, u16)>,
    pub taken: Arc<Mutex<u32>>,
}

impl Policy for Preempt
{
    fn choose(&mut self, runnable: &[usize], current: Option<usize>, step: u64) -> usize
    {
        for (s, c) in self.points.iter()
        {
            if *s == step
            {
                let others: Vec<usize> = runnable.iter().cloned().filter(|r| Some(*r) != current).collect();
                if !others.is_empty()
                {
                    if current.is_some()
                    {
                        *self.taken.lock().unwrap() += 1;
                    }
                    return others[(*c as usize) % others.len()];
                }
            }
        }
        match current
        {
            Some(c) => c,
            None => if self.highest { *runnable.last().unwrap() } else { runnable[0] },
        }
    }
}

pub struct XorShift(pub u64);

impl XorShift
{
    pub fn new(seed: u64) -> Self
    {
        let mut x = XorShift(seed ^ 0x9E3779B97F4A7C15);
        if x.0 == 0 { x.0 = 0x1234567; }
        for _ in 0..4 { x.next(); }
        x
    }
    pub fn next(&mut self) -> u64
    {
        let mut x = self.0;
        x ^= x << 13;
        x ^= x >> 7;
        x ^= x << 17;
        self.0 = x;
        x.wrapping_mul(0x2545F4914F6CDD1D)
    }
    pub fn below(&mut self, n: u64) -> u64
    {
        if n == 0 { 0 } else { (self.next() >> 11) % n }
    }
}

/// Uniform random walk: at every yield point, with probability `switch_num/16`, jump to a
/// uniformly chosen runnable thread.
pub struct RandomWalk
{
    pub rng: XorShift,
    pub switch_num: u64,
}

impl Policy for RandomWalk
{
    fn choose(&mut self, runnable: &[usize], current: Option<usize>, _step: u64) -> usize
    {
        match current
        {
            Some(c) if self.rng.below(16) >= self.switch_num => c,
            _ => runnable[self.rng.below(runnable.len() as u64) as usize],
        }
    }
}

/// PCT-style: random priorities per thread, `d` priority change points at random steps.
pub struct Pct
{
    pub rng: XorShift,
    pub prios: Vec<u64>,
    pub change_points: Vec<u64>,
}

impl Pct
{
    pub fn new(seed: u64, d: usize, horizon: u64) -> Self
    {
        let mut rng = XorShift::new(seed);
        let mut cps = vec![];
        for _ in 0..d
        {
            cps.push(1 + rng.below(horizon.max(1)));
        }
        Pct { rng, prios: vec![], change_points: cps }
    }
    fn prio(&mut self, id: usize) -> u64
    {
        while self.prios.len() <= id
        {
            let p = 1000 + self.rng.below(1_000_000);
            self.prios.push(p);
        }
        self.prios[id]
    }
}

impl Policy for Pct
{
    fn choose(&mut self, runnable: &[usize], current: Option<usize>, step: u64) -> usize
    {
        if let Some(c) = current
        {
            if self.change_points.contains(&step)
            {
                let _ = self.prio(c);
                // drop below every initial priority; later change points go lower still
                self.prios[c] = step % 1000;
            }
        }
        let mut best = runnable[0];
        let mut bp = self.prio(best);
        for r in runnable.iter().skip(1)
        {
            let p = self.prio(*r);
            if p > bp
            {
                best = *r;
                bp = p;
            }
        }
        best
    }
}

/// Force an exact recorded sequence; falls back to serial when the trace ends or names a
/// thread that is not runnable (flagged in `diverged`).
pub struct Replay
{
    pub trace: Vec<u16>,
    pub pos: usize,
    pub diverged: Arc<Mutex<bool>>,
}

impl Policy for Replay
{
    fn choose(&mut self, runnable: &[usize], current: Option<usize>, _step: u64) -> usize
    {
        if self.pos < self.trace.len()
        {
            let want = self.trace[self.pos] as usize;
            self.pos += 1;
            if runnable.contains(&want)
            {
                return want;
            }
            *self.diverged.lock().unwrap() = true;
        }
        match current
        {
            Some(c) => c,
            None => runnable[0],
        }
    }
}

// ---------------------------------------------------------------------------------------
// execution state

#[derive(Clone, Debug, PartialEq)]
enum Status
{
    Runnable,
    BlockedRecv(usize),
    BlockedJoin(usize),
    Finished,
}

#[derive(Default, Clone, Debug)]
pub struct Events
{
    pub yields: u64,
    pub switches: u64,
    pub preemptions: u64,
    pub max_runnable: usize,
    pub threads: usize,
    pub sends: u64,
    pub send_to_dropped_receiver: u64,
    pub recv_blocked: u64,
    pub recv_on_closed: u64,
    pub join_blocked: u64,
}

struct St
{
    cvs: Vec<Arc<Condvar>>,
    current: usize,
    status: Vec<Status>,
    live_os_threads: usize,
    aborting: Option<String>,
    deadlock: Option<String>,
    step: u64,
    policy: Box<dyn Policy>,
    trace: Vec<u16>,
    record_trace: bool,
    record_yields: bool,
    ylog: Vec<(usize, String)>,
    panics: Vec<String>,
    next_chan: usize,
    ev: Events,
}

pub struct Inner
{
    m: Mutex<St>,
}

impl St
{
    fn wake(&self, tid: usize)
    {
        if let Some(cv) = self.cvs.get(tid)
        {
            cv.notify_all();
        }
    }
    fn wake_all(&self)
    {
        for cv in self.cvs.iter()
        {
            cv.notify_all();
        }
    }
}

type Job = Box<dyn FnOnce() + Send + 'static>;

struct PoolWorker
{
    tx: std::sync::mpsc::Sender<Job>,
}

static POOL: Mutex<Vec<PoolWorker>> = Mutex::new(Vec::new());

/// Run `job` on a pooled OS thread (created on demand, reused afterwards): creating and
/// tearing down a thread per rule per run costs an mmap/munmap each, which serialises all
/// proptest workers of the process on the address-space lock.
fn pool_run(job: Job) -> bool
{
    let w = POOL.lock().unwrap_or_else(|e| e.into_inner()).pop();
    if let Some(w) = w
    {
        match w.tx.send(job)
        {
            Ok(()) => return true,
            Err(std::sync::mpsc::SendError(job)) => return pool_spawn(job),
        }
    }
    pool_spawn(job)
}

fn pool_spawn(job: Job) -> bool
{
    let (tx, rx) = std::sync::mpsc::channel::<Job>();
    let tx2 = tx.clone();
    let r = std::thread::Builder::new().stack_size(1 << 20).spawn(move ||
    {
        while let Ok(job) = rx.recv()
        {
            job();
            POOL.lock().unwrap_or_else(|e| e.into_inner()).push(PoolWorker { tx: tx2.clone() });
        }
    });
    match r
    {
        Ok(_) => tx.send(job).is_ok(),
        Err(_) => false,
    }
}

struct AbortToken;

thread_local!
{
    static CTX: RefCell<Option<(Arc<Inner>, usize)>> = RefCell::new(None);
    static IN_HARNESS_PANIC_OK: RefCell<bool> = RefCell::new(false);
    static LAST_PANIC: RefCell<Option<String>> = RefCell::new(None);
}

/// Runs `f`, turning a panic (of the code under test) into Err(message) without noise.
pub fn catch_quiet<T>(f: impl FnOnce() -> T) -> Result<T, String>
{
    install_panic_hook();
    let was = IN_HARNESS_PANIC_OK.with(|q| std::mem::replace(&mut *q.borrow_mut(), true));
    LAST_PANIC.with(|p| *p.borrow_mut() = None);
    let r = std::panic::catch_unwind(std::panic::AssertUnwindSafe(f));
    IN_HARNESS_PANIC_OK.with(|q| *q.borrow_mut() = was);
    match r
    {
        Ok(v) => Ok(v),
        Err(_) => Err(LAST_PANIC.with(|p| p.borrow_mut().take()).unwrap_or_else(|| "panic (no message)".to_string())),
    }
}

fn ctx() -> Option<(Arc<Inner>, usize)>
{
    CTX.with(|c| c.borrow().clone())
}

pub fn in_controlled() -> bool
{
    CTX.with(|c| c.borrow().is_some())
}

pub fn current_thread_id() -> usize
{
    CTX.with(|c| c.borrow().as_ref().map(|x| x.1).unwrap_or(0))
}

fn lock(inner: &Inner) -> MutexGuard<'_, St>
{
    inner.m.lock().unwrap_or_else(|e| e.into_inner())
}

fn unwind_abort() -> !
{
    std::panic::resume_unwind(Box::new(AbortToken))
}

impl St
{
    fn runnable(&self) -> Vec<usize>
    {
        self.status.iter().enumerate().filter(|(_, s)| **s == Status::Runnable).map(|(i, _)| i).collect()
    }

    fn describe(&self) -> String
    {
        let mut s = String::new();
        for (i, st) in self.status.iter().enumerate()
        {
            s.push_str(&format!("t{}:{:?} ", i, st));
        }
        s
    }
}

/// Hand the baton on.  `me_runnable` says whether the caller may be chosen again.
/// Returns with the baton held by `me` (or unwinds on abort).
fn reschedule(inner: &Arc<Inner>, st: MutexGuard<'_, St>, me: usize, me_runnable: bool)
{
    reschedule_tagged(inner, st, me, me_runnable, "")
}

fn reschedule_tagged(inner: &Arc<Inner>, mut st: MutexGuard<'_, St>, me: usize, me_runnable: bool, tag: &str)
{
    if st.aborting.is_some()
    {
        drop(st);
        unwind_abort();
    }
    st.step += 1;
    st.ev.yields += 1;
    let runnable = st.runnable();
    if runnable.len() > st.ev.max_runnable
    {
        st.ev.max_runnable = runnable.len();
    }
    if runnable.is_empty()
    {
        // nobody can run: deadlock (the caller is blocked, not finished)
        let d = format!("deadlock at step {}: {}", st.step, st.describe());
        st.deadlock = Some(d.clone());
        st.aborting = Some(d);
        st.wake_all();
        drop(st);
        unwind_abort();
    }
    let step = st.step;
    if st.record_yields && me_runnable && !tag.is_empty()
    {
        st.ylog.push((me, tag.to_string()));
    }
    let next = st.policy.choose_tagged(&runnable, if me_runnable { Some(me) } else { None }, step, tag);
    let next = if runnable.contains(&next) { next } else { runnable[0] };
    if st.record_trace
    {
        st.trace.push(next as u16);
    }
    if next != me
    {
        st.ev.switches += 1;
        if me_runnable
        {
            st.ev.preemptions += 1;
        }
        st.current = next;
        st.wake(next);
        let mycv = st.cvs[me].clone();
        loop
        {
            st = mycv.wait(st).unwrap_or_else(|e| e.into_inner());
            if st.aborting.is_some()
            {
                drop(st);
                unwind_abort();
            }
            if st.current == me
            {
                break;
            }
        }
    }
}

/// A plain yield point; no-op outside a controlled execution.
pub fn yield_here()
{
    if let Some((inner, me)) = ctx()
    {
        let st = lock(&inner);
        reschedule(&inner, st, me, true);
    }
}

/// Yield point carrying the tag of the operation about to be performed.
pub fn yield_tagged(op: &str, path: &str)
{
    if let Some((inner, me)) = ctx()
    {
        let st = lock(&inner);
        let wants = st.record_yields || true;
        if wants
        {
            let tag = format!("{}:{}", op, path);
            reschedule_tagged(&inner, st, me, true, &tag);
        }
    }
}

/// Abort the whole controlled execution (crash injection): every thread unwinds.
pub fn abort_all(reason: &str) -> !
{
    if let Some((inner, _me)) = ctx()
    {
        let mut st = lock(&inner);
        if st.aborting.is_none()
        {
            st.aborting = Some(reason.to_string());
        }
        st.wake_all();
        drop(st);
        unwind_abort();
    }
    panic!("abort_all outside controlled execution: {}", reason);
}

pub fn is_aborting() -> bool
{
    match ctx()
    {
        Some((inner, _)) => lock(&inner).aborting.is_some(),
        None => false,
    }
}

pub struct RunOutcome<R>
{
    pub result: Option<R>,
    pub panics: Vec<String>,
    pub deadlock: Option<String>,
    pub aborted: Option<String>,
    pub steps: u64,
    pub trace: Vec<u16>,
    pub events: Events,
    pub leftover_threads: usize,
    pub yields: Vec<(usize, String)>,
}

static HOOK: std::sync::Once = std::sync::Once::new();

pub fn install_panic_hook()
{
    HOOK.call_once(||
    {
        let prev = std::panic::take_hook();
        std::panic::set_hook(Box::new(move |info|
        {
            if let Some((inner, me)) = ctx()
            {
                let msg = if let Some(s) = info.payload().downcast_ref::<&str>() { s.to_string() }
                    else if let Some(s) = info.payload().downcast_ref::<String>() { s.clone() }
                    else { "<non-string panic>".to_string() };
                let loc = info.location().map(|l| format!("{}:{}", l.file(), l.line())).unwrap_or_default();
                let mut st = lock(&inner);
                st.panics.push(format!("thread {} panicked at {}: {}", me, loc, msg));
                return;
            }
            let quiet = IN_HARNESS_PANIC_OK.with(|q| *q.borrow());
            if quiet
            {
                let msg = if let Some(s) = info.payload().downcast_ref::<&str>() { s.to_string() }
                    else if let Some(s) = info.payload().downcast_ref::<String>() { s.clone() }
                    else { "<non-string panic>".to_string() };
                let loc = info.location().map(|l| format!("{}:{}", l.file(), l.line())).unwrap_or_default();
                LAST_PANIC.with(|p| *p.borrow_mut() = Some(format!("{} at {}", msg, loc)));
            }
            else
            {
                prev(info);
            }
        }));
    });
}

/// Run `f` on the calling thread as controlled thread 0 under `policy`.
pub fn run_controlled<R>(policy: Box<dyn Policy>, record_trace: bool, f: impl FnOnce() -> R) -> RunOutcome<R>
{
    run_controlled_opts(policy, record_trace, false, f)
}

pub fn run_controlled_opts<R>(policy: Box<dyn Policy>, record_trace: bool, record_yields: bool, f: impl FnOnce() -> R) -> RunOutcome<R>
{
    install_panic_hook();
    assert!(!in_controlled(), "nested controlled execution");
    let inner = Arc::new(Inner
    {
        m: Mutex::new(St
        {
            cvs: vec![Arc::new(Condvar::new())],
            current: 0,
            status: vec![Status::Runnable],
            live_os_threads: 0,
            aborting: None,
            deadlock: None,
            step: 0,
            policy,
            trace: vec![],
            record_trace,
            record_yields,
            ylog: vec![],
            panics: vec![],
            next_chan: 0,
            ev: Events::default(),
        }),
    });
    CTX.with(|c| *c.borrow_mut() = Some((inner.clone(), 0)));
    let r = std::panic::catch_unwind(std::panic::AssertUnwindSafe(f));
    // thread 0 is done: drain the others
    let mut leftover = 0;
    {
        let mut st = lock(&inner);
        st.status[0] = Status::Finished;
        // wake joiners of 0 (none in practice)
        leftover = st.status.iter().filter(|s| **s != Status::Finished).count();
        if st.aborting.is_none()
        {
            let runnable = st.runnable();
            if !runnable.is_empty()
            {
                let step = st.step;
                let next = st.policy.choose(&runnable, None, step);
                let next = if runnable.contains(&next) { next } else { runnable[0] };
                st.current = next;
                st.wake(next);
            }
            else if leftover > 0
            {
                let d = format!("leftover threads blocked after caller returned: {}", st.describe());
                st.deadlock = Some(d.clone());
                st.aborting = Some(d);
                st.wake_all();
            }
        }
        else
        {
            st.wake_all();
        }
        let mycv = st.cvs[0].clone();
        while st.live_os_threads > 0
        {
            st = mycv.wait(st).unwrap_or_else(|e| e.into_inner());
        }
    }
    CTX.with(|c| *c.borrow_mut() = None);
    let mut st = lock(&inner);
    let result = match r
    {
        Ok(v) => Some(v),
        Err(p) =>
        {
            if p.downcast_ref::<AbortToken>().is_none() && st.panics.is_empty()
            {
                st.panics.push("thread 0 panicked (payload unknown)".to_string());
            }
            None
        }
    };
    st.ev.threads = st.status.len();
    RunOutcome
    {
        result,
        panics: st.panics.clone(),
        deadlock: st.deadlock.clone(),
        aborted: st.aborting.clone(),
        steps: st.step,
        trace: std::mem::take(&mut st.trace),
        events: st.ev.clone(),
        leftover_threads: leftover,
        yields: std::mem::take(&mut st.ylog),
    }
}

/// Called by a finishing controlled thread (not thread 0): pass the baton on.
fn thread_finished(inner: &Arc<Inner>, me: usize)
{
    let mut st = lock(inner);
    st.status[me] = Status::Finished;
    for i in 0..st.status.len()
    {
        if st.status[i] == Status::BlockedJoin(me)
        {
            st.status[i] = Status::Runnable;
        }
    }
    if st.aborting.is_none()
    {
        st.step += 1;
        let runnable = st.runnable();
        if !runnable.is_empty()
        {
            let step = st.step;
            let next = st.policy.choose(&runnable, None, step);
            let next = if runnable.contains(&next) { next } else { runnable[0] };
            if st.record_trace
            {
                st.trace.push(next as u16);
            }
            st.ev.switches += 1;
            st.current = next;
            st.wake(next);
        }
        else if st.status.iter().any(|s| *s != Status::Finished)
        {
            let d = format!("deadlock at step {} (after t{} finished): {}", st.step, me, st.describe());
            st.deadlock = Some(d.clone());
            st.aborting = Some(d);
            st.wake_all();
        }
    }
}

// ---------------------------------------------------------------------------------------
// thread

pub mod thread
{
    use super::*;

    pub enum JoinHandle<T>
    {
        Std(std::thread::JoinHandle<T>),
        Ctl
        {
            inner: Arc<Inner>,
            tid: usize,
            slot: Arc<Mutex<Option<std::thread::Result<T>>>>,
        },
    }

    impl<T> JoinHandle<T>
    {
        pub fn join(self) -> std::thread::Result<T>
        {
            match self
            {
                JoinHandle::Std(h) => h.join(),
                JoinHandle::Ctl { inner, tid, slot } =>
                {
                    let me = current_thread_id();
                    {
                        let st = lock(&inner);
                        reschedule(&inner, st, me, true);
                    }
                    loop
                    {
                        let mut st = lock(&inner);
                        if st.status[tid] == Status::Finished
                        {
                            break;
                        }
                        st.status[me] = Status::BlockedJoin(tid);
                        st.ev.join_blocked += 1;
                        reschedule(&inner, st, me, false);
                    }
                    let r = slot.lock().unwrap_or_else(|e| e.into_inner()).take();
                    match r
                    {
                        Some(r) => r,
                        None => Err(Box::new("join slot empty") as Box<dyn Any + Send>),
                    }
                }
            }
        }
    }

    pub fn spawn<F, T>(f: F) -> JoinHandle<T>
    where
        F: FnOnce() -> T + Send + 'static,
        T: Send + 'static,
    {
        match ctx()
        {
            None => JoinHandle::Std(std::thread::spawn(f)),
            Some((inner, me)) =>
            {
                let slot: Arc<Mutex<Option<std::thread::Result<T>>>> = Arc::new(Mutex::new(None));
                let tid;
                {
                    let mut st = lock(&inner);
                    if st.aborting.is_some()
                    {
                        drop(st);
                        unwind_abort();
                    }
                    tid = st.status.len();
                    st.status.push(Status::Runnable);
                    st.cvs.push(Arc::new(Condvar::new()));
                    st.live_os_threads += 1;
                }
                let inner2 = inner.clone();
                let slot2 = slot.clone();
                let started = pool_run(Box::new(move ||
                {
                    CTX.with(|c| *c.borrow_mut() = Some((inner2.clone(), tid)));
                    // wait for the baton
                    let mut aborted = false;
                    {
                        let mut st = lock(&inner2);
                        let mycv = st.cvs[tid].clone();
                        loop
                        {
                            if st.aborting.is_some()
                            {
                                aborted = true;
                                break;
                            }
                            if st.current == tid
                            {
                                break;
                            }
                            st = mycv.wait(st).unwrap_or_else(|e| e.into_inner());
                        }
                    }
                    if !aborted
                    {
                        let r = std::panic::catch_unwind(std::panic::AssertUnwindSafe(f));
                        *slot2.lock().unwrap_or_else(|e| e.into_inner()) = Some(r);
                    }
                    else
                    {
                        drop(f);
                    }
                    thread_finished(&inner2, tid);
                    CTX.with(|c| *c.borrow_mut() = None);
                    let mut st = lock(&inner2);
                    st.live_os_threads -= 1;
                    if st.live_os_threads == 0
                    {
                        st.wake(0);
                    }
                }));
                if !started
                {
                    let mut st = lock(&inner);
                    st.live_os_threads -= 1;
                    st.status[tid] = Status::Finished;
                    st.aborting = Some("OS thread spawn failed".to_string());
                    st.wake_all();
                    drop(st);
                    unwind_abort();
                }
                // spawning is a yield point (after the new thread exists)
                {
                    let st = lock(&inner);
                    reschedule(&inner, st, me, true);
                }
                JoinHandle::Ctl { inner, tid, slot }
            }
        }
    }
}

// ---------------------------------------------------------------------------------------
// mpsc

pub mod mpsc
{
    use super::*;
    pub use std::sync::mpsc::{RecvError, SendError};

    pub struct Chan<T>
    {
        inner: Arc<Inner>,
        id: usize,
        q: Mutex<VecDeque<T>>,
        senders: Mutex<usize>,
        receiver_alive: Mutex<bool>,
    }

    pub enum Sender<T>
    {
        Std(std::sync::mpsc::Sender<T>),
        Ctl(Arc<Chan<T>>),
    }

    pub enum Receiver<T>
    {
        Std(std::sync::mpsc::Receiver<T>),
        Ctl(Arc<Chan<T>>),
    }

    pub fn channel<T>() -> (Sender<T>, Receiver<T>)
    {
        match ctx()
        {
            None =>
            {
                let (s, r) = std::sync::mpsc::channel();
                (Sender::Std(s), Receiver::Std(r))
            }
            Some((inner, _me)) =>
            {
                let id;
                {
                    let mut st = lock(&inner);
                    id = st.next_chan;
                    st.next_chan += 1;
                }
                let c = Arc::new(Chan
                {
                    inner,
                    id,
                    q: Mutex::new(VecDeque::new()),
                    senders: Mutex::new(1),
                    receiver_alive: Mutex::new(true),
                });
                (Sender::Ctl(c.clone()), Receiver::Ctl(c))
            }
        }
    }

    fn wake_receiver(inner: &Arc<Inner>, id: usize)
    {
        let mut st = lock(inner);
        for i in 0..st.status.len()
        {
            if st.status[i] == Status::BlockedRecv(id)
            {
                st.status[i] = Status::Runnable;
            }
        }
    }

    impl<T> Sender<T>
    {
        pub fn send(&self, t: T) -> Result<(), SendError<T>>
        {
            match self
            {
                Sender::Std(s) => s.send(t),
                Sender::Ctl(c) =>
                {
                    if let Some((inner, me)) = ctx()
                    {
                        let st = lock(&inner);
                        reschedule(&inner, st, me, true);
                    }
                    {
                        let mut st = lock(&c.inner);
                        st.ev.sends += 1;
                        if !*c.receiver_alive.lock().unwrap()
                        {
                            st.ev.send_to_dropped_receiver += 1;
                            return Err(SendError(t));
                        }
                    }
                    c.q.lock().unwrap().push_back(t);
                    wake_receiver(&c.inner, c.id);
                    Ok(())
                }
            }
        }
    }

    impl<T> Clone for Sender<T>
    {
        fn clone(&self) -> Self
        {
            match self
            {
                Sender::Std(s) => Sender::Std(s.clone()),
                Sender::Ctl(c) =>
                {
                    *c.senders.lock().unwrap() += 1;
                    Sender::Ctl(c.clone())
                }
            }
        }
    }

    impl<T> Drop for Sender<T>
    {
        fn drop(&mut self)
        {
            if let Sender::Ctl(c) = self
            {
                let mut n = c.senders.lock().unwrap_or_else(|e| e.into_inner());
                *n -= 1;
                if *n == 0
                {
                    drop(n);
                    wake_receiver(&c.inner, c.id);
                }
            }
        }
    }

    impl<T> Receiver<T>
    {
        pub fn recv(&self) -> Result<T, RecvError>
        {
            match self
            {
                Receiver::Std(r) => r.recv(),
                Receiver::Ctl(c) =>
                {
                    let (inner, me) = match ctx()
                    {
                        Some(x) => x,
                        None =>
                        {
                            // receiver used outside its execution: behave like a closed channel
                            return c.q.lock().unwrap().pop_front().ok_or(RecvError);
                        }
                    };
                    {
                        let st = lock(&inner);
                        reschedule(&inner, st, me, true);
                    }
                    loop
                    {
                        if let Some(v) = c.q.lock().unwrap().pop_front()
                        {
                            return Ok(v);
                        }
                        if *c.senders.lock().unwrap() == 0
                        {
                            lock(&inner).ev.recv_on_closed += 1;
                            return Err(RecvError);
                        }
                        let mut st = lock(&inner);
                        st.status[me] = Status::BlockedRecv(c.id);
                        st.ev.recv_blocked += 1;
                        reschedule(&inner, st, me, false);
                    }
                }
            }
        }
    }

    impl<T> Drop for Receiver<T>
    {
        fn drop(&mut self)
        {
            if let Receiver::Ctl(c) = self
            {
                *c.receiver_alive.lock().unwrap_or_else(|e| e.into_inner()) = false;
            }
        }
    }
}
