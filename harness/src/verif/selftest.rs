//! `rv verif selftest`: checks of the harness's own trusted base, so that a difference
//! between model and reality cannot masquerade as a ruler defect.
//!  1. sha256.rs / b62.rs against `sha256sum` and python3 integer arithmetic
//!  2. VerifSystem against RealSystem on random operation sequences in a scratch directory
//!  3. the command language interpreter against its /bin/sh rendering

use std::collections::BTreeMap;
use std::io::{Read, Write};
use std::process::Command;

use crate::system::real::RealSystem;
use crate::system::{System, SystemError};

use super::b62;
use super::cmd::{self, CmdFs, Instr};
use super::model;
use super::sched::XorShift;
use super::sha256::{hex, sha256};
use super::vsys::{Clock, VerifSystem};

fn scratch(tag: &str) -> std::path::PathBuf
{
    let d = std::env::temp_dir().join(format!("rv-selftest-{}-{}", tag, std::process::id()));
    let _ = std::fs::remove_dir_all(&d);
    std::fs::create_dir_all(&d).expect("scratch dir");
    d
}

fn hashes() -> Result<u32, String>
{
    let dir = scratch("hash");
    let mut r = XorShift::new(42);
    let mut n = 0;
    for len in [0usize, 1, 55, 56, 57, 63, 64, 65, 119, 120, 127, 128, 255, 256, 257, 1000, 4096, 70001]
    {
        let data: Vec<u8> = (0..len).map(|_| (r.next() >> 16) as u8).collect();
        let p = dir.join(format!("f{}", len));
        std::fs::write(&p, &data).map_err(|e| format!("{}", e))?;
        let out = Command::new("sha256sum").arg(&p).output().map_err(|e| format!("sha256sum: {}", e))?;
        let want = String::from_utf8_lossy(&out.stdout).split_whitespace().next().unwrap_or("").to_string();
        let got = hex(&sha256(&data));
        if got != want
        {
            return Err(format!("sha256 of {} bytes: harness {} vs sha256sum {}", len, got, want));
        }
        // base 62 against python's big integers
        let h = sha256(&data);
        let py = format!("import sys\nv=int.from_bytes(bytes.fromhex('{}'),'little')\nA='0123456789abcdefghijklmnopqrstuvwxyzABCDEFGHIJKLMNOPQRSTUVWXYZ'\ns=''\nfor _ in range(43):\n    s+=A[v%62]; v//=62\nprint(s)", hex(&h));
        let out = Command::new("python3").arg("-c").arg(&py).output().map_err(|e| format!("python3: {}", e))?;
        let want = String::from_utf8_lossy(&out.stdout).trim().to_string();
        if b62::encode(&h) != want
        {
            return Err(format!("base62 of {}: harness {} vs python {}", hex(&h), b62::encode(&h), want));
        }
        if b62::decode(&want) != Ok(h)
        {
            return Err(format!("base62 decode of {} differs", want));
        }
        n += 1;
    }
    let _ = std::fs::remove_dir_all(&dir);
    Ok(n)
}

fn errname(e: &SystemError) -> String
{
    format!("{:?}", e)
}

fn fsdiff() -> Result<u32, String>
{
    let dir = scratch("fs");
    let old = std::env::current_dir().map_err(|e| format!("{}", e))?;
    std::env::set_current_dir(&dir).map_err(|e| format!("{}", e))?;
    let result = (|| -> Result<u32, String>
    {
        let mut total = 0;
        for seq in 0..120u64
        {
            let root = format!("s{}", seq);
            std::fs::create_dir(&root).map_err(|e| format!("{}", e))?;
            let mut real = RealSystem::new();
            let mut ver = VerifSystem::new(Clock::Distinct);
            ver.h_mkdir_all(&root);
            let mut r = XorShift::new(seq + 1);
            let names = ["a", "b", "c", "d/x", "d/y", "d", "e", "e/z", "missing/q"];
            for step in 0..40
            {
                let p = format!("{}/{}", root, names[r.below(names.len() as u64) as usize]);
                let q = format!("{}/{}", root, names[r.below(names.len() as u64) as usize]);
                let what = r.below(10);
                let (a, b): (String, String) = match what
                {
                    0 | 1 =>
                    {
                        let data: Vec<u8> = (0..r.below(40)).map(|_| b'a' + (r.below(26) as u8)).collect();
                        let ra = match real.create_file(&p) { Ok(mut f) => { f.write_all(&data).map_err(|e| format!("{}", e))?; "ok".to_string() } Err(e) => errname(&e) };
                        let rb = match ver.create_file(&p) { Ok(mut f) => { f.write_all(&data).map_err(|e| format!("{}", e))?; "ok".to_string() } Err(e) => errname(&e) };
                        (ra, rb)
                    }
                    2 => (real.create_dir(&p).map(|_| "ok".to_string()).unwrap_or_else(|e| errname(&e)), ver.create_dir(&p).map(|_| "ok".to_string()).unwrap_or_else(|e| errname(&e))),
                    3 | 4 =>
                    {
                        // directory-onto-directory renames are outside what ruler does and outside the model
                        if real.is_dir(&p) && real.is_dir(&q) { continue; }
                        (real.rename(&p, &q).map(|_| "ok".to_string()).unwrap_or_else(|e| errname(&e)), ver.rename(&p, &q).map(|_| "ok".to_string()).unwrap_or_else(|e| errname(&e)))
                    }
                    5 => (format!("{} {}", real.is_file(&p), real.is_dir(&p)), format!("{} {}", ver.is_file(&p), ver.is_dir(&p))),
                    6 => (format!("{:?}", real.list_dir(&p)), format!("{:?}", ver.list_dir(&p))),
                    7 =>
                    {
                        if real.is_dir(&p) { continue; }
                        let ra = match real.open(&p) { Ok(mut f) => { let mut v = vec![]; f.read_to_end(&mut v).map_err(|e| format!("{}", e))?; format!("{:?}", v) } Err(e) => errname(&e) };
                        let rb = match ver.open(&p) { Ok(mut f) => { let mut v = vec![]; f.read_to_end(&mut v).map_err(|e| format!("{}", e))?; format!("{:?}", v) } Err(e) => errname(&e) };
                        (ra, rb)
                    }
                    8 =>
                    {
                        if real.is_dir(&p) { continue; }
                        let x = r.below(2) == 0;
                        (format!("{:?} {:?}", real.set_is_executable(&p, x), real.is_executable(&p)), format!("{:?} {:?}", ver.set_is_executable(&p, x), ver.is_executable(&p)))
                    }
                    _ =>
                    {
                        // rename keeps the modification time; compare "mtime unchanged by rename" on both
                        if !real.is_file(&p) || real.is_dir(&q) || p == q { continue; }
                        let (m1, v1) = (real.get_modified(&p).ok(), ver.get_modified(&p).ok());
                        let (ra, rb) = (real.rename(&p, &q).is_ok(), ver.rename(&p, &q).is_ok());
                        let (m2, v2) = (real.get_modified(&q).ok(), ver.get_modified(&q).ok());
                        (format!("{} {}", ra, !ra || m1 == m2), format!("{} {}", rb, !rb || v1 == v2))
                    }
                };
                total += 1;
                if a != b
                {
                    return Err(format!("sequence {} step {} op {} on {:?},{:?}: RealSystem {:?} vs VerifSystem {:?}", seq, step, what, p, q, a, b));
                }
            }
            // final trees agree
            let snap = ver.snapshot();
            for (path, f) in snap.iter()
            {
                let realdata = std::fs::read(path).map_err(|e| format!("real file {} missing: {}", path, e))?;
                if realdata != f.data
                {
                    return Err(format!("sequence {}: content of {} differs", seq, path));
                }
            }
        }
        Ok(total)
    })();
    let _ = std::env::set_current_dir(old);
    let _ = std::fs::remove_dir_all(&dir);
    result
}

struct MapFs(BTreeMap<String, (Vec<u8>, bool)>);

impl CmdFs for MapFs
{
    fn read(&mut self, path: &str) -> Option<Vec<u8>> { self.0.get(path).map(|x| x.0.clone()) }
    fn write(&mut self, path: &str, data: &[u8]) -> bool { let e = self.0.get(path).map(|x| x.1).unwrap_or(false); self.0.insert(path.to_string(), (data.to_vec(), e)); true }
    fn chmodx(&mut self, path: &str) -> bool { match self.0.get_mut(path) { Some(x) => { x.1 = true; true } None => false } }
    fn exists(&mut self, path: &str) -> bool { self.0.contains_key(path) }
}

fn cmdlang() -> Result<u32, String>
{
    let dir = scratch("cmd");
    let mut r = XorShift::new(7);
    let mut n = 0;
    for case in 0..300u64
    {
        let d = dir.join(format!("c{}", case));
        std::fs::create_dir_all(&d).map_err(|e| format!("{}", e))?;
        let mut m = MapFs(BTreeMap::new());
        for (name, content) in [("s1", "v0"), ("s2", "v1"), ("s3", "v3")]
        {
            if r.below(5) > 0
            {
                std::fs::write(d.join(name), content).map_err(|e| format!("{}", e))?;
                m.0.insert(name.to_string(), (content.as_bytes().to_vec(), false));
            }
        }
        let mut chain = vec![];
        for k in 0..(1 + r.below(4))
        {
            let t = format!("t{}", k);
            let s = format!("s{}", 1 + r.below(3));
            chain.push(match r.below(11)
            {
                0 => Instr::EmitCopy { t, src: s },
                7 => Instr::EmitCopyP { t, src: s },
                8 => Instr::EmitLink { t, src: s },
                9 => Instr::Noise { err: 70000, out: 10 },
                10 => Instr::DieIf { flag: s, how: (k % 4) as u8 },
                1 => Instr::EmitConst { t, tag: format!("K{}", k) },
                2 => Instr::EmitMix { t, tag: format!("T{}", k), srcs: vec![s, format!("s{}", 1 + r.below(3))] },
                3 => Instr::FailOn { src: s, content: "v1".to_string() },
                4 => Instr::FailIf { flag: s },
                5 => Instr::EmitMix { t, tag: "E".to_string(), srcs: vec![] },
                _ => Instr::ChmodX { t: format!("t{}", r.below(2)) },
            });
        }
        let line = chain.iter().map(|i| i.render()).collect::<Vec<_>>().join(" && ");
        let (code, _) = cmd::run_line(&mut m, &line);
        let sh = chain.iter().map(model::shell_instr).collect::<Vec<_>>().join(" && ");
        let out = Command::new("sh").arg("-c").arg(&sh).current_dir(&d).output().map_err(|e| format!("sh: {}", e))?;
        let shell_ok = out.status.success();
        if (code == 0) != shell_ok
        {
            return Err(format!("command {:?} / {:?}: interpreter exit {} vs shell success {}", line, sh, code, shell_ok));
        }
        if code == 0
        {
            for (p, (data, exec)) in m.0.iter()
            {
                let real = std::fs::read(d.join(p)).map_err(|e| format!("{:?}: shell did not produce {}: {}", sh, p, e))?;
                if real != *data
                {
                    return Err(format!("{:?}: {} holds {:?} in the shell, {:?} in the interpreter", sh, p, String::from_utf8_lossy(&real), String::from_utf8_lossy(data)));
                }
                use std::os::unix::fs::PermissionsExt;
                let rx = std::fs::metadata(d.join(p)).map(|mm| mm.permissions().mode() & 0o111 != 0).unwrap_or(false);
                if rx != *exec
                {
                    return Err(format!("{:?}: exec bit of {} differs", sh, p));
                }
            }
        }
        n += 1;
    }
    let _ = std::fs::remove_dir_all(&dir);
    Ok(n)
}

pub fn run() -> i32
{
    let mut bad = 0;
    match hashes()
    {
        Ok(n) => println!("selftest hashes: {} inputs agree with sha256sum and python3", n),
        Err(m) => { println!("selftest hashes FAILED: {}", m); bad += 1; }
    }
    match fsdiff()
    {
        Ok(n) => println!("selftest file system: {} operations agree between VerifSystem and RealSystem", n),
        Err(m) => { println!("selftest file system FAILED: {}", m); bad += 1; }
    }
    match cmdlang()
    {
        Ok(n) => println!("selftest command language: {} scripts agree between the interpreter and /bin/sh", n),
        Err(m) => { println!("selftest command language FAILED: {}", m); bad += 1; }
    }
    if bad == 0 { 0 } else { 2 }
}
