//! Independent SHA-256 (FIPS 180-4), written for the oracle side only.
//! Cross-checked against `sha256sum` in `rv verif selftest`.

const K: [u32; 64] = [
    0x428a2f98, 0x71374491, 0xb5c0fbcf, 0xe9b5dba5, 0x3956c25b, 0x59f111f1, 0x923f82a4, 0xab1c5ed5,
    0xd807aa98, 0x12835b01, 0x243185be, 0x550c7dc3, 0x72be5d74, 0x80deb1fe, 0x9bdc06a7, 0xc19bf174,
    0xe49b69c1, 0xefbe4786, 0x0fc19dc6, 0x240ca1cc, 0x2de92c6f, 0x4a7484aa, 0x5cb0a9dc, 0x76f988da,
    0x983e5152, 0xa831c66d, 0xb00327c8, 0xbf597fc7, 0xc6e00bf3, 0xd5a79147, 0x06ca6351, 0x14292967,
    0x27b70a85, 0x2e1b2138, 0x4d2c6dfc, 0x53380d13, 0x650a7354, 0x766a0abb, 0x81c2c92e, 0x92722c85,
    0xa2bfe8a1, 0xa81a664b, 0xc24b8b70, 0xc76c51a3, 0xd192e819, 0xd6990624, 0xf40e3585, 0x106aa070,
    0x19a4c116, 0x1e376c08, 0x2748774c, 0x34b0bcb5, 0x391c0cb3, 0x4ed8aa4a, 0x5b9cca4f, 0x682e6ff3,
    0x748f82ee, 0x78a5636f, 0x84c87814, 0x8cc70208, 0x90befffa, 0xa4506ceb, 0xbef9a3f7, 0xc67178f2,
];

pub struct Sha256
{
    h: [u32; 8],
    buf: Vec<u8>,
    len: u64,
}

impl Sha256
{
    pub fn new() -> Self
    {
        Sha256
        {
            h: [0x6a09e667, 0xbb67ae85, 0x3c6ef372, 0xa54ff53a, 0x510e527f, 0x9b05688c, 0x1f83d9ab, 0x5be0cd19],
            buf: Vec::with_capacity(64),
            len: 0,
        }
    }

    fn block(&mut self, b: &[u8])
    {
        let mut w = [0u32; 64];
        for i in 0..16
        {
            w[i] = u32::from_be_bytes([b[4 * i], b[4 * i + 1], b[4 * i + 2], b[4 * i + 3]]);
        }
        for i in 16..64
        {
            let s0 = w[i - 15].rotate_right(7) ^ w[i - 15].rotate_right(18) ^ (w[i - 15] >> 3);
            let s1 = w[i - 2].rotate_right(17) ^ w[i - 2].rotate_right(19) ^ (w[i - 2] >> 10);
            w[i] = w[i - 16].wrapping_add(s0).wrapping_add(w[i - 7]).wrapping_add(s1);
        }
        let mut a = self.h;
        for i in 0..64
        {
            let s1 = a[4].rotate_right(6) ^ a[4].rotate_right(11) ^ a[4].rotate_right(25);
            let ch = (a[4] & a[5]) ^ ((!a[4]) & a[6]);
            let t1 = a[7].wrapping_add(s1).wrapping_add(ch).wrapping_add(K[i]).wrapping_add(w[i]);
            let s0 = a[0].rotate_right(2) ^ a[0].rotate_right(13) ^ a[0].rotate_right(22);
            let maj = (a[0] & a[1]) ^ (a[0] & a[2]) ^ (a[1] & a[2]);
            let t2 = s0.wrapping_add(maj);
            a[7] = a[6];
            a[6] = a[5];
            a[5] = a[4];
            a[4] = a[3].wrapping_add(t1);
            a[3] = a[2];
            a[2] = a[1];
            a[1] = a[0];
            a[0] = t1.wrapping_add(t2);
        }
        for i in 0..8
        {
            self.h[i] = self.h[i].wrapping_add(a[i]);
        }
    }

    pub fn update(&mut self, mut data: &[u8])
    {
        self.len = self.len.wrapping_add(data.len() as u64);
        if !self.buf.is_empty()
        {
            let need = 64 - self.buf.len();
            let take = need.min(data.len());
            self.buf.extend_from_slice(&data[..take]);
            data = &data[take..];
            if self.buf.len() == 64
            {
                let b = std::mem::take(&mut self.buf);
                self.block(&b);
            }
        }
        while data.len() >= 64
        {
            let (b, rest) = data.split_at(64);
            self.block(b);
            data = rest;
        }
        if !data.is_empty()
        {
            self.buf.extend_from_slice(data);
        }
    }

    pub fn finish(mut self) -> [u8; 32]
    {
        let bitlen = self.len.wrapping_mul(8);
        let mut pad = vec![0x80u8];
        let cur = (self.buf.len() + 1) % 64;
        let zeros = if cur <= 56 { 56 - cur } else { 120 - cur };
        pad.extend(std::iter::repeat(0u8).take(zeros));
        pad.extend_from_slice(&bitlen.to_be_bytes());
        let l = self.len;
        self.update(&pad);
        self.len = l;
        debug_assert!(self.buf.is_empty());
        let mut out = [0u8; 32];
        for i in 0..8
        {
            out[4 * i..4 * i + 4].copy_from_slice(&self.h[i].to_be_bytes());
        }
        out
    }
}

pub fn sha256(data: &[u8]) -> [u8; 32]
{
    let mut s = Sha256::new();
    s.update(data);
    s.finish()
}

pub fn hex(d: &[u8]) -> String
{
    d.iter().map(|b| format!("{:02x}", b)).collect()
}
