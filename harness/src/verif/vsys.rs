//! VerifSystem: instrumented in-memory implementation of ruler's `System` trait.
//! POSIX-like semantics mirrored from /repo/src/system/real.rs (checked by
//! `rv verif selftest` against RealSystem in a scratch directory).

use std::cell::RefCell;
use std::collections::BTreeMap;
use std::fmt;
use std::io;
use std::sync::{Arc, Mutex, MutexGuard};
use std::time::{Duration, SystemTime};

use crate::system::{CommandLineOutput, CommandScript, System, SystemError};
use super::cmd::{self, CmdFs};
use super::sched;

#[derive(Clone, Debug, PartialEq)]
pub enum Clock
{
    /// every create/write gets a fresh, strictly increasing microsecond stamp
    Distinct,
    /// one tick per user action / ruler invocation (harness calls `tick`)
    Coarse,
}

#[derive(Clone, Debug)]
struct Inode
{
    data: Vec<u8>,
    mtime: u64,
    exec: bool,
}

#[derive(Clone, Debug)]
enum Node
{
    File(usize),
    Dir(BTreeMap<String, Node>),
}

#[derive(Clone, Debug, PartialEq)]
pub enum Op
{
    Open(String),
    Create(String),
    Write(String, usize),
    Mkdir(String),
    Rename(String, String),
    Chmod(String, bool),
    IsFile(String),
    IsDir(String),
    List(String),
    Mtime(String),
    IsExec(String),
    Exec(String),
}

impl Op
{
    pub fn is_mutation(&self) -> bool
    {
        matches!(self, Op::Create(_) | Op::Write(_, _) | Op::Mkdir(_) | Op::Rename(_, _) | Op::Chmod(_, _))
    }

    pub fn paths(&self) -> Vec<&str>
    {
        match self
        {
            Op::Open(p) | Op::Create(p) | Op::Write(p, _) | Op::Mkdir(p) | Op::Chmod(p, _) | Op::IsFile(p)
            | Op::IsDir(p) | Op::List(p) | Op::Mtime(p) | Op::IsExec(p) => vec![p.as_str()],
            Op::Rename(a, b) => vec![a.as_str(), b.as_str()],
            Op::Exec(_) => vec![],
        }
    }
}

#[derive(Clone, Debug)]
pub struct LogEntry
{
    pub seq: u64,
    pub thread: usize,
    pub in_cmd: bool,
    pub op: Op,
    pub ok: bool,
    /// for renames: "dst=absent" | "dst=same" | "dst=different"
    pub note: &'static str,
}

#[derive(Clone, Debug)]
pub struct CmdExec
{
    pub seq: u64,
    pub thread: usize,
    pub lines: Vec<String>,
    pub codes: Vec<i32>,
    pub reads: Vec<(String, Option<Vec<u8>>)>,
    pub writes: Vec<(String, Vec<u8>)>,
    /// declared sources of the rule (looked up in `rule_sources`) as they were at entry
    pub entry_sources: Vec<(String, Option<Vec<u8>>)>,
    pub end_seq: u64,
}

#[derive(Clone, Debug, PartialEq, Eq)]
pub struct FileSnap
{
    pub data: Vec<u8>,
    pub mtime: u64,
    pub exec: bool,
}

pub type Snapshot = BTreeMap<String, FileSnap>;

#[derive(Clone, Debug)]
pub struct CrashPlan
{
    /// freeze just before mutation number `at` (0-based)...
    pub at: u64,
    /// ...or, when that mutation is a write and `torn` is Some(j), after j of its bytes
    pub torn: Option<usize>,
}

pub struct Fs
{
    root: BTreeMap<String, Node>,
    inodes: Vec<Inode>,
    pub clock: Clock,
    pub now: u64,
    pub log: Vec<LogEntry>,
    pub log_enabled: bool,
    pub cmds: Vec<CmdExec>,
    pub seq: u64,
    pub mutations: u64,
    /// (index, kind, len) of every mutation seen since `reset_counters`
    pub mutation_kinds: Vec<(Op, bool)>,
    pub crash: Option<CrashPlan>,
    pub frozen: bool,
    pub read_chunks: Vec<usize>,
    read_chunk_pos: usize,
    pub rule_sources: BTreeMap<String, Vec<String>>,
}

thread_local!
{
    static IN_CMD: RefCell<bool> = RefCell::new(false);
}

fn in_cmd() -> bool
{
    IN_CMD.with(|c| *c.borrow())
}

fn comps(path: &str) -> Vec<&str>
{
    path.split('/').filter(|c| !c.is_empty() && *c != ".").collect()
}

pub const EPOCH_US: u64 = 1_700_000_000_000_000;

fn to_time(us: u64) -> SystemTime
{
    SystemTime::UNIX_EPOCH + Duration::from_micros(us)
}

impl Fs
{
    fn new(clock: Clock) -> Fs
    {
        Fs
        {
            root: BTreeMap::new(),
            inodes: vec![],
            clock,
            now: EPOCH_US,
            log: vec![],
            log_enabled: true,
            cmds: vec![],
            seq: 0,
            mutations: 0,
            mutation_kinds: vec![],
            crash: None,
            frozen: false,
            read_chunks: vec![],
            read_chunk_pos: 0,
            rule_sources: BTreeMap::new(),
        }
    }

    fn stamp(&mut self) -> u64
    {
        if self.clock == Clock::Distinct
        {
            self.now += 1;
        }
        self.now
    }

    fn get(&self, path: &str) -> Option<&Node>
    {
        let c = comps(path);
        if c.is_empty()
        {
            return None;
        }
        let mut cur = &self.root;
        for (i, name) in c.iter().enumerate()
        {
            match cur.get(*name)
            {
                Some(n) =>
                {
                    if i + 1 == c.len()
                    {
                        return Some(n);
                    }
                    match n
                    {
                        Node::Dir(m) => cur = m,
                        Node::File(_) => return None,
                    }
                }
                None => return None,
            }
        }
        None
    }

    fn parent_mut(&mut self, path: &str) -> Option<(&mut BTreeMap<String, Node>, String)>
    {
        let c = comps(path);
        if c.is_empty()
        {
            return None;
        }
        let mut cur = &mut self.root;
        for name in c[..c.len() - 1].iter()
        {
            match cur.get_mut(*name)
            {
                Some(Node::Dir(m)) => cur = m,
                _ => return None,
            }
        }
        Some((cur, c[c.len() - 1].to_string()))
    }

    /// some proper prefix of the path is a file (ENOTDIR on a real file system)
    fn through_file(&self, path: &str) -> bool
    {
        let c = comps(path);
        let mut cur = &self.root;
        for name in c[..c.len().saturating_sub(1)].iter()
        {
            match cur.get(*name)
            {
                Some(Node::Dir(m)) => cur = m,
                Some(Node::File(_)) => return true,
                None => return false,
            }
        }
        false
    }

    fn is_root(path: &str) -> bool
    {
        comps(path).is_empty()
    }

    fn file_inode(&self, path: &str) -> Option<usize>
    {
        match self.get(path)
        {
            Some(Node::File(i)) => Some(*i),
            _ => None,
        }
    }

    fn is_dir(&self, path: &str) -> bool
    {
        Fs::is_root(path) || matches!(self.get(path), Some(Node::Dir(_)))
    }

    fn log(&mut self, op: Op, ok: bool)
    {
        self.log_note(op, ok, "");
    }

    fn log_note(&mut self, op: Op, ok: bool, note: &'static str)
    {
        self.seq += 1;
        if self.log_enabled
        {
            self.log.push(LogEntry { seq: self.seq, thread: sched::current_thread_id(), in_cmd: in_cmd(), op, ok, note });
        }
    }

    fn walk(prefix: &str, m: &BTreeMap<String, Node>, inodes: &Vec<Inode>, out: &mut Snapshot)
    {
        for (name, n) in m.iter()
        {
            let p = if prefix.is_empty() { name.clone() } else { format!("{}/{}", prefix, name) };
            match n
            {
                Node::File(i) =>
                {
                    let ino = &inodes[*i];
                    out.insert(p, FileSnap { data: ino.data.clone(), mtime: ino.mtime, exec: ino.exec });
                }
                Node::Dir(sub) => Fs::walk(&p, sub, inodes, out),
            }
        }
    }

    fn walk_dirs(prefix: &str, m: &BTreeMap<String, Node>, out: &mut Vec<String>)
    {
        for (name, n) in m.iter()
        {
            if let Node::Dir(sub) = n
            {
                let p = if prefix.is_empty() { name.clone() } else { format!("{}/{}", prefix, name) };
                out.push(p.clone());
                Fs::walk_dirs(&p, sub, out);
            }
        }
    }
}

/// What to do at a mutation point.
enum MutDecision
{
    Go,
    /// apply only the first j bytes of this write, then crash
    Torn(usize),
    Crash,
}

#[derive(Clone)]
pub struct VerifSystem
{
    fs: Arc<Mutex<Fs>>,
}

pub struct VFile
{
    sys: VerifSystem,
    inode: usize,
    pos: usize,
    path: String,
    writable: bool,
}

impl fmt::Debug for VFile
{
    fn fmt(&self, f: &mut fmt::Formatter) -> fmt::Result
    {
        write!(f, "VFile({})", self.path)
    }
}

impl VerifSystem
{
    pub fn new(clock: Clock) -> VerifSystem
    {
        VerifSystem { fs: Arc::new(Mutex::new(Fs::new(clock))) }
    }

    pub fn lock(&self) -> MutexGuard<'_, Fs>
    {
        self.fs.lock().unwrap_or_else(|e| e.into_inner())
    }

    /// Deep copy (fresh lock, same tree/contents/clock; log and counters reset).
    pub fn fork(&self) -> VerifSystem
    {
        let g = self.lock();
        let f = Fs
        {
            root: g.root.clone(),
            inodes: g.inodes.clone(),
            clock: g.clock.clone(),
            now: g.now,
            log: vec![],
            log_enabled: g.log_enabled,
            cmds: vec![],
            seq: 0,
            mutations: 0,
            mutation_kinds: vec![],
            crash: None,
            frozen: false,
            read_chunks: g.read_chunks.clone(),
            read_chunk_pos: 0,
            rule_sources: g.rule_sources.clone(),
        };
        VerifSystem { fs: Arc::new(Mutex::new(f)) }
    }

    // ---- harness-side (user) operations: not logged, no yield, no crash points ----

    pub fn tick(&self)
    {
        let mut g = self.lock();
        g.now += 1_000_000;
    }

    pub fn h_mkdir_all(&self, path: &str)
    {
        let mut g = self.lock();
        let c = comps(path);
        let mut cur = &mut g.root;
        for name in c
        {
            let e = cur.entry(name.to_string()).or_insert_with(|| Node::Dir(BTreeMap::new()));
            match e
            {
                Node::Dir(m) => cur = m,
                Node::File(_) => panic!("h_mkdir_all over file {}", path),
            }
        }
    }

    pub fn h_write(&self, path: &str, data: &[u8])
    {
        let mut g = self.lock();
        let t = g.stamp();
        if let Some(i) = g.file_inode(path)
        {
            g.inodes[i].data = data.to_vec();
            g.inodes[i].mtime = t;
            return;
        }
        let id = g.inodes.len();
        g.inodes.push(Inode { data: data.to_vec(), mtime: t, exec: false });
        match g.parent_mut(path)
        {
            Some((m, name)) => { m.insert(name, Node::File(id)); }
            None => panic!("h_write: no parent for {}", path),
        }
    }

    /// Write with an explicit mtime (for clock-model experiments).
    pub fn h_write_at(&self, path: &str, data: &[u8], mtime: u64)
    {
        self.h_write(path, data);
        let mut g = self.lock();
        let i = g.file_inode(path).unwrap();
        g.inodes[i].mtime = mtime;
    }

    pub fn h_read(&self, path: &str) -> Option<Vec<u8>>
    {
        let g = self.lock();
        g.file_inode(path).map(|i| g.inodes[i].data.clone())
    }

    pub fn h_stat(&self, path: &str) -> Option<FileSnap>
    {
        let g = self.lock();
        g.file_inode(path).map(|i| FileSnap { data: g.inodes[i].data.clone(), mtime: g.inodes[i].mtime, exec: g.inodes[i].exec })
    }

    pub fn h_exists(&self, path: &str) -> bool
    {
        self.lock().get(path).is_some()
    }

    pub fn h_is_dir(&self, path: &str) -> bool
    {
        self.lock().is_dir(path)
    }

    pub fn h_chmod(&self, path: &str, exec: bool)
    {
        let mut g = self.lock();
        if let Some(i) = g.file_inode(path)
        {
            g.inodes[i].exec = exec;
        }
    }

    /// Remove a file or a whole tree; true if something was removed.
    pub fn h_remove(&self, path: &str) -> bool
    {
        let mut g = self.lock();
        match g.parent_mut(path)
        {
            Some((m, name)) => m.remove(&name).is_some(),
            None => false,
        }
    }

    pub fn h_list(&self, path: &str) -> Vec<String>
    {
        let g = self.lock();
        let m = if Fs::is_root(path) { Some(&g.root) } else { match g.get(path) { Some(Node::Dir(m)) => Some(m), _ => None } };
        match m
        {
            Some(m) => m.keys().map(|k| if Fs::is_root(path) { k.clone() } else { format!("{}/{}", path, k) }).collect(),
            None => vec![],
        }
    }

    pub fn snapshot(&self) -> Snapshot
    {
        let g = self.lock();
        let mut out = Snapshot::new();
        Fs::walk("", &g.root, &g.inodes, &mut out);
        out
    }

    pub fn dirs(&self) -> Vec<String>
    {
        let g = self.lock();
        let mut out = vec![];
        Fs::walk_dirs("", &g.root, &mut out);
        out
    }

    pub fn reset_observation(&self)
    {
        let mut g = self.lock();
        g.log.clear();
        g.cmds.clear();
        g.mutations = 0;
        g.mutation_kinds.clear();
        g.crash = None;
        g.frozen = false;
    }

    pub fn take_log(&self) -> (Vec<LogEntry>, Vec<CmdExec>)
    {
        let mut g = self.lock();
        (std::mem::take(&mut g.log), std::mem::take(&mut g.cmds))
    }

    // ---- instrumented internals ----

    /// Called with the lock held, before applying a mutation.  Never returns on crash.
    fn mutation_point<'a>(&self, g: MutexGuard<'a, Fs>, op: &Op) -> (MutexGuard<'a, Fs>, MutDecision)
    {
        let mut g = g;
        if g.frozen
        {
            drop(g);
            sched::abort_all("frozen");
        }
        let idx = g.mutations;
        g.mutations += 1;
        let ic = in_cmd();
        g.mutation_kinds.push((op.clone(), ic));
        let plan = g.crash.clone();
        if let Some(plan) = plan
        {
            if plan.at == idx
            {
                match (plan.torn, op)
                {
                    (Some(j), Op::Write(_, n)) if j > 0 && j < *n =>
                    {
                        return (g, MutDecision::Torn(j));
                    }
                    _ =>
                    {
                        g.frozen = true;
                        return (g, MutDecision::Crash);
                    }
                }
            }
        }
        (g, MutDecision::Go)
    }

    fn do_crash(&self, g: MutexGuard<'_, Fs>) -> !
    {
        let mut g = g;
        g.frozen = true;
        drop(g);
        sched::abort_all("crash injection");
    }

    fn file_write(&self, f: &mut VFile, buf: &[u8]) -> io::Result<usize>
    {
        if !f.writable
        {
            return Err(io::Error::new(io::ErrorKind::Other, "not writable"));
        }
        let g = self.lock();
        if g.frozen && std::thread::panicking()
        {
            // e.g. a BufWriter flushing in its Drop while the killed process unwinds: those bytes never reach the disk
            return Err(io::Error::new(io::ErrorKind::Other, "process is dead"));
        }
        let op = Op::Write(f.path.clone(), buf.len());
        let (mut g, d) = self.mutation_point(g, &op);
        let n = match d
        {
            MutDecision::Go => buf.len(),
            MutDecision::Torn(j) => j,
            MutDecision::Crash => self.do_crash(g),
        };
        let t = g.stamp();
        {
            let ino = &mut g.inodes[f.inode];
            let end = f.pos + n;
            if ino.data.len() < end
            {
                ino.data.resize(end, 0);
            }
            ino.data[f.pos..end].copy_from_slice(&buf[..n]);
            ino.mtime = t;
        }
        f.pos += n;
        g.log(op, true);
        if let MutDecision::Torn(_) = d
        {
            self.do_crash(g);
        }
        Ok(n)
    }

    fn file_read(&self, f: &mut VFile, buf: &mut [u8]) -> io::Result<usize>
    {
        let mut g = self.lock();
        let mut lim = buf.len();
        if !g.read_chunks.is_empty()
        {
            let k = g.read_chunk_pos % g.read_chunks.len();
            g.read_chunk_pos += 1;
            lim = lim.min(g.read_chunks[k].max(1));
        }
        let ino = &g.inodes[f.inode];
        if f.pos >= ino.data.len()
        {
            return Ok(0);
        }
        let n = lim.min(ino.data.len() - f.pos);
        buf[..n].copy_from_slice(&ino.data[f.pos..f.pos + n]);
        f.pos += n;
        Ok(n)
    }

    /// create/truncate; used by System::create_file and by commands
    fn create_inner(&self, path: &str) -> Result<VFile, SystemError>
    {
        let g = self.lock();
        let op = Op::Create(path.to_string());
        // validity first (errors are not mutations)
        if g.is_dir(path)
        {
            let mut g = g;
            g.log(op, false);
            return Err(SystemError::Weird);
        }
        {
            let c = comps(path);
            let parent = c[..c.len().saturating_sub(1)].join("/");
            if c.is_empty() || !(parent.is_empty() || g.is_dir(&parent))
            {
                let weird = g.through_file(path);
                let mut g = g;
                g.log(op, false);
                return Err(if weird { SystemError::Weird } else { SystemError::NotFound });
            }
        }
        if g.frozen && std::thread::panicking() { return Err(SystemError::Weird); } // a Drop running while the killed process unwinds: a dead process does nothing
        let (mut g, d) = self.mutation_point(g, &op);
        if let MutDecision::Crash = d
        {
            self.do_crash(g);
        }
        let t = g.stamp();
        let id = match g.file_inode(path)
        {
            Some(i) =>
            {
                g.inodes[i].data.clear();
                g.inodes[i].mtime = t;
                i
            }
            None =>
            {
                let id = g.inodes.len();
                g.inodes.push(Inode { data: vec![], mtime: t, exec: false });
                let (m, name) = g.parent_mut(path).unwrap();
                m.insert(name, Node::File(id));
                id
            }
        };
        g.log(op, true);
        Ok(VFile { sys: self.clone(), inode: id, pos: 0, path: path.to_string(), writable: true })
    }

    fn chmod_inner(&self, path: &str, executable: bool) -> Result<(), SystemError>
    {
        let g = self.lock();
        let op = Op::Chmod(path.to_string(), executable);
        match g.file_inode(path)
        {
            None =>
            {
                let mut g = g;
                let isdir = g.is_dir(path);
                g.log(op, isdir);
                if isdir { Ok(()) } else { Err(SystemError::MetadataNotFound) }
            }
            Some(i) =>
            {
                if g.frozen && std::thread::panicking() { return Err(SystemError::Weird); }
                let (mut g, d) = self.mutation_point(g, &op);
                if let MutDecision::Crash = d
                {
                    self.do_crash(g);
                }
                g.inodes[i].exec = executable;
                g.log(op, true);
                Ok(())
            }
        }
    }
}

impl io::Read for VFile
{
    fn read(&mut self, buf: &mut [u8]) -> io::Result<usize>
    {
        let s = self.sys.clone();
        s.file_read(self, buf)
    }
}

impl io::Write for VFile
{
    fn write(&mut self, buf: &[u8]) -> io::Result<usize>
    {
        let s = self.sys.clone();
        s.file_write(self, buf)
    }

    fn flush(&mut self) -> io::Result<()>
    {
        Ok(())
    }
}

struct CmdView<'a>
{
    sys: &'a VerifSystem,
    reads: Vec<(String, Option<Vec<u8>>)>,
    writes: Vec<(String, Vec<u8>)>,
}

impl<'a> CmdFs for CmdView<'a>
{
    fn read(&mut self, path: &str) -> Option<Vec<u8>>
    {
        let r =
        {
            let mut g = self.sys.lock();
            let r = g.file_inode(path).map(|i| g.inodes[i].data.clone());
            g.log(Op::Open(path.to_string()), r.is_some());
            r
        };
        self.reads.push((path.to_string(), r.clone()));
        r
    }

    fn write(&mut self, path: &str, data: &[u8]) -> bool
    {
        use std::io::Write;
        match self.sys.create_inner(path)
        {
            Ok(mut f) =>
            {
                if !data.is_empty() && f.write_all(data).is_err()
                {
                    return false;
                }
                self.writes.push((path.to_string(), data.to_vec()));
                true
            }
            Err(_) => false,
        }
    }

    fn chmodx(&mut self, path: &str) -> bool
    {
        self.sys.chmod_inner(path, true).is_ok() && self.sys.lock().file_inode(path).is_some()
    }

    fn copy_mtime(&mut self, from: &str, to: &str)
    {
        let mut g = self.sys.lock();
        if let (Some(a), Some(b)) = (g.file_inode(from), g.file_inode(to))
        {
            let m = g.inodes[a].mtime;
            g.inodes[b].mtime = m;
        }
    }

    fn exists(&mut self, path: &str) -> bool
    {
        let mut g = self.sys.lock();
        let r = g.get(path).is_some();
        g.log(Op::IsFile(path.to_string()), r);
        r
    }
}

struct CmdGuard;

impl Drop for CmdGuard
{
    fn drop(&mut self)
    {
        IN_CMD.with(|c| *c.borrow_mut() = false);
    }
}

impl System for VerifSystem
{
    type File = VFile;

    fn open(&self, path: &str) -> Result<Self::File, SystemError>
    {
        sched::yield_tagged("open", path);
        let mut g = self.lock();
        match g.file_inode(path)
        {
            Some(i) =>
            {
                g.log(Op::Open(path.to_string()), true);
                Ok(VFile { sys: self.clone(), inode: i, pos: 0, path: path.to_string(), writable: false })
            }
            None =>
            {
                let weird = g.is_dir(path) || g.through_file(path);
                g.log(Op::Open(path.to_string()), false);
                Err(if weird { SystemError::Weird } else { SystemError::NotFound })
            }
        }
    }

    fn create_file(&mut self, path: &str) -> Result<Self::File, SystemError>
    {
        sched::yield_tagged("create", path);
        self.create_inner(path)
    }

    fn create_dir(&mut self, path: &str) -> Result<(), SystemError>
    {
        sched::yield_tagged("mkdir", path);
        let g = self.lock();
        let op = Op::Mkdir(path.to_string());
        let c = comps(path);
        let parent = c[..c.len().saturating_sub(1)].join("/");
        if c.is_empty() || g.get(path).is_some()
        {
            let mut g = g;
            g.log(op, false);
            return Err(SystemError::Weird);
        }
        if !(parent.is_empty() || g.is_dir(&parent))
        {
            let weird = g.through_file(path);
            let mut g = g;
            g.log(op, false);
            return Err(if weird { SystemError::Weird } else { SystemError::NotFound });
        }
        if g.frozen && std::thread::panicking() { return Err(SystemError::Weird); } // a Drop running while the killed process unwinds: a dead process does nothing
        let (mut g, d) = self.mutation_point(g, &op);
        if let MutDecision::Crash = d
        {
            self.do_crash(g);
        }
        let (m, name) = g.parent_mut(path).unwrap();
        m.insert(name, Node::Dir(BTreeMap::new()));
        g.log(op, true);
        Ok(())
    }

    fn is_dir(&self, path: &str) -> bool
    {
        sched::yield_tagged("is_dir", path);
        let mut g = self.lock();
        let r = g.is_dir(path);
        g.log(Op::IsDir(path.to_string()), r);
        r
    }

    fn is_file(&self, path: &str) -> bool
    {
        sched::yield_tagged("is_file", path);
        let mut g = self.lock();
        let r = g.file_inode(path).is_some();
        g.log(Op::IsFile(path.to_string()), r);
        r
    }

    fn list_dir(&self, path: &str) -> Result<Vec<String>, SystemError>
    {
        sched::yield_tagged("list", path);
        let mut g = self.lock();
        let res =
        {
            let m = if Fs::is_root(path) { Some(&g.root) } else { match g.get(path) { Some(Node::Dir(m)) => Some(m), _ => None } };
            match m
            {
                Some(m) =>
                {
                    let base = comps(path).join("/");
                    let mut v: Vec<String> = m.keys().map(|k| if base.is_empty() { k.clone() } else { format!("{}/{}", base, k) }).collect();
                    v.sort();
                    Ok(v)
                }
                None => Err(if g.file_inode(path).is_some() { SystemError::ExpectedDirFoundFile } else { SystemError::NotFound }),
            }
        };
        g.log(Op::List(path.to_string()), res.is_ok());
        res
    }

    fn rename(&mut self, from: &str, to: &str) -> Result<(), SystemError>
    {
        sched::yield_tagged("rename", &format!("{}>{}", from, to));
        let g = self.lock();
        let op = Op::Rename(from.to_string(), to.to_string());
        {
            // path resolution order of rename(2): the source's parent, then the destination's parent, then the source itself
            let parent_state = |p: &str| -> Option<SystemError>
            {
                if g.through_file(p) { return Some(SystemError::Weird); }
                let c = comps(p);
                let parent = c[..c.len().saturating_sub(1)].join("/");
                if c.is_empty() || !(parent.is_empty() || g.is_dir(&parent)) { return Some(SystemError::NotFound); }
                None
            };
            let early = parent_state(from).or_else(|| parent_state(to));
            if let Some(e) = early
            {
                let mut g = g;
                g.log(op, false);
                return Err(e);
            }
        }
        let src_is_file = g.file_inode(from).is_some();
        let src_is_dir = !Fs::is_root(from) && g.is_dir(from);
        if !src_is_file && !src_is_dir
        {
            let weird = g.through_file(from);
            let mut g = g;
            g.log(op, false);
            return Err(if weird { SystemError::Weird } else { SystemError::NotFound });
        }
        let tc = comps(to);
        let tparent = tc[..tc.len().saturating_sub(1)].join("/");
        if tc.is_empty() || !(tparent.is_empty() || g.is_dir(&tparent))
        {
            let weird = g.through_file(to);
            let mut g = g;
            g.log(op, false);
            return Err(if weird { SystemError::Weird } else { SystemError::NotFound });
        }
        let dst_is_dir = g.is_dir(to);
        let dst_is_file = g.file_inode(to).is_some();
        let into_itself = src_is_dir && { let (f, t) = (comps(from), comps(to)); t.len() > f.len() && t[..f.len()] == f[..] };
        if into_itself || (src_is_file && dst_is_dir) || (src_is_dir && (dst_is_file || dst_is_dir))
        {
            let mut g = g;
            g.log(op, false);
            return Err(SystemError::Weird);
        }
        if comps(from) == comps(to)
        {
            let mut g = g;
            g.log(op, true);
            return Ok(());
        }
        let note = match (g.file_inode(from), g.file_inode(to))
        {
            (_, None) => "dst=absent",
            (Some(a), Some(b)) => if g.inodes[a].data == g.inodes[b].data { "dst=same" } else { "dst=different" },
            (None, Some(_)) => "dst=different",
        };
        if g.frozen && std::thread::panicking() { return Err(SystemError::Weird); } // a Drop running while the killed process unwinds: a dead process does nothing
        let (mut g, d) = self.mutation_point(g, &op);
        if let MutDecision::Crash = d
        {
            self.do_crash(g);
        }
        let node =
        {
            let (m, name) = g.parent_mut(from).unwrap();
            m.remove(&name).unwrap()
        };
        {
            let (m, name) = g.parent_mut(to).unwrap();
            m.insert(name, node);
        }
        g.log_note(op, true, note);
        Ok(())
    }

    fn get_modified(&self, path: &str) -> Result<SystemTime, SystemError>
    {
        sched::yield_tagged("mtime", path);
        let mut g = self.lock();
        let r = match g.file_inode(path)
        {
            Some(i) => Ok(to_time(g.inodes[i].mtime)),
            None => if g.is_dir(path) { Ok(to_time(EPOCH_US)) } else { Err(SystemError::MetadataNotFound) },
        };
        g.log(Op::Mtime(path.to_string()), r.is_ok());
        r
    }

    fn is_executable(&self, path: &str) -> Result<bool, SystemError>
    {
        sched::yield_tagged("is_exec", path);
        let mut g = self.lock();
        let r = match g.file_inode(path)
        {
            Some(i) => Ok(g.inodes[i].exec),
            None => if g.is_dir(path) { Ok(true) } else { Err(SystemError::MetadataNotFound) },
        };
        g.log(Op::IsExec(path.to_string()), r.is_ok());
        r
    }

    fn set_is_executable(&mut self, path: &str, executable: bool) -> Result<(), SystemError>
    {
        sched::yield_tagged("chmod", path);
        self.chmod_inner(path, executable)
    }

    fn execute_command(&mut self, command_script: CommandScript) -> Vec<Result<CommandLineOutput, SystemError>>
    {
        sched::yield_here();
        let key = command_script.lines.join("\n");
        let (seq, entry_sources) =
        {
            let mut g = self.lock();
            g.log(Op::Exec(key.clone()), true);
            let seq = g.seq;
            let srcs = g.rule_sources.get(&key).cloned().unwrap_or_default();
            let es: Vec<(String, Option<Vec<u8>>)> = srcs.iter().map(|p| (p.clone(), g.file_inode(p).map(|i| g.inodes[i].data.clone()))).collect();
            (seq, es)
        };
        IN_CMD.with(|c| *c.borrow_mut() = true);
        let _guard = CmdGuard;
        let mut view = CmdView { sys: self, reads: vec![], writes: vec![] };
        let mut results = vec![];
        let mut codes = vec![];
        for line in command_script.lines.iter()
        {
            let (code, err) = cmd::run_line(&mut view, line);
            codes.push(code);
            results.push(Ok(CommandLineOutput { out: String::new(), err, code: Some(code), success: code == 0 }));
        }
        let (reads, writes) = (std::mem::take(&mut view.reads), std::mem::take(&mut view.writes));
        let mut g = self.lock();
        let end_seq = g.seq;
        if command_script.lines.is_empty()
        {
            // an empty command section: nothing ran, nothing to record
            return results;
        }
        g.cmds.push(CmdExec { seq, thread: sched::current_thread_id(), lines: command_script.lines.clone(), codes, reads, writes, entry_sources, end_seq });
        results
    }
}
