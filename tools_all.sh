#!/bin/bash
# runs every registered quick check; prints one line per property
cd /verif
for id in $(python3 -c "import json; print(' '.join(c['property_id'] for c in json.load(open('MANIFEST.json'))['checks']))"); do
  out=$(./check $id --tier ${1:-quick} 2>&1); rc=$?
  echo "rc=$rc $(echo "$out" | grep -E "violations=" | tail -1) $(echo "$out" | grep -c VIOLATION) viol-lines"
done
