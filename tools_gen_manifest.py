#!/usr/bin/env python3
"""Generates /verif/MANIFEST.json from the table below (kept here so the manifest stays consistent)."""
import json, os
HERE = os.path.dirname(os.path.abspath(__file__))

CHECKS = {
 # id: (level category, level text, level_note, technique, design_ref)
 "C01": ("exploration",
         "Generated histories (graph x operation sequence) are executed against the real build/clean code on an instrumented in-memory file system; after every build that reports success every in-scope target is compared byte for byte with the harness's own from-scratch evaluation, and a build the model expects to succeed must not fail. No counterexample in N histories is a sample, not a proof.",
         "Trusted: the harness command language and reference evaluation (model.rs), VerifSystem's POSIX model (differentially tested against RealSystem), Distinct clock assumption.",
         "property-based testing: stateful/model-based histories vs from-scratch reference model (proptest, shrinking)", "2 C01"),
 "C12": ("exploration",
         "Every directed graph on up to 4 rules (5 in thorough) with every goal choice and several labelings is enumerated and checked against an independent colour-DFS reading of the rule set, plus proptest rule sets up to 40 rules; success/failure kind, plan membership, order, source bindings, leaves and input-order invariance are all checked.",
         "Trusted: the 60-line reference analysis (oracle/refsort.rs). Error payloads are not compared, only kinds.",
         "small-scope exhaustive generation + property-based testing against a reference analysis", "2 C12"),
 "C13": ("exploration",
         "Generated pairs of parser-producible rules (a random rule and a single-edit near miss, independent pairs, or pairs in which a string moves across a section boundary together with a separator-like suffix), built through Rule::new on shuffled lists or through render+parse, must share an identity exactly when target set, source set and command-line list are equal.",
         "Modulo SHA-256 collisions. Strings obey the parser's invariants (non-empty, no newline/tab, not a lone ':').",
         "property-based testing: metamorphic near-miss pairs vs set/list equality oracle", "2 C13"),
 "C14": ("exploration",
         "Rendered random rule sets under all formatting choices must parse to exactly the written rules (sets equal, commands exact, no duplicates, line-order invariant); single-edit corruptions and token soup must give exactly the result of an independent reference parser (error kind, file, 1-based line, bundle indices) and never panic. The thorough tier adds a coverage-guided libFuzzer target with the same oracle inside (2M runs, seeded with the project's own test strings); it found the flat-plus-bundled duplicate (fixed in f7c720b).",
         "Trusted: oracle/refparse.rs (written from the README and the conventions the project's tests document). Shapes the format leaves open (CR, empty section, tab-only lines) are checked for totality only.",
         "property-based testing: round-trip + differential against a reference parser; grammar-based corruption", "2 C14"),
 "C15": ("exploration",
         "Files of every length 0..=1100 plus random lengths to 70000 read through short-read handles are hashed and compared with the harness's own SHA-256/base-62; all edge and random 256-bit values round-trip through the text form; arbitrary strings are accepted iff the independent decoder accepts them; directory hashes are order-independent and change under any single point change (content, name, entry added/removed, bytes moved between adjacent files). Valid encodings with a character appended or prepended (blanks, line ends) must be rejected. `hash` through the built binary on real files and on real directories (compared with the same tree listed in memory) runs in both tiers; thorough adds a libFuzzer target for the text form (4M runs).",
         "Trusted: harness sha256.rs and b62.rs (self-tested against sha256sum). Modulo collisions.",
         "property-based testing: differential against independent SHA-256/base-62, round-trip, metamorphic tree changes", "2 C15"),
 "C16": ("exploration",
         "Random rule histories and file-state tables written through the real writers are read back by a fresh object and compared; every strict prefix must be rejected; every single bit flip of small instances and random byte strings must yield an error or a well-formed value, never a panic. Thorough: libFuzzer target feeding arbitrary bytes to both readers (accepted values must round-trip and none of their strict prefixes may be accepted).",
         "Equality on decoded values. Allocation bounds are not measured (see DESIGN changelog).",
         "property-based testing: round-trip, prefix and bit-flip fault injection on serialised state", "2 C16"),
 "C02": ("exploration",
         "The C01 histories are re-run with a monitor that keeps the harness's own record of successful executions (canonical rule x source contents -> outputs) and audits the cache itself; from ruler's call log it asserts that no command runs twice per build, that every rule with a live must-not-run obligation stays silent, and that an immediately repeated successful build runs nothing and touches nothing outside the ruler directory.",
         "Obligations are derived only from the harness's own record and own cache audit (as the property's quantifier demands). Distinct clock; deterministic commands.",
         "property-based testing: stateful histories with a call-log monitor and model-derived must-not-run obligations", "2 C02"),
 "C07": ("exploration",
         "After every generated build or clean (successful or failing, with tampered targets and failing commands) every cache entry's name is recomputed with the harness's own SHA-256/base-62 from the entry's bytes; targets renamed out of the cache must hold the content the entry name encodes.",
         "Distinct clock as the property assumes. Crash instants are audited in C11, schedules in C06.",
         "property-based testing: invariant over generated histories (content-address audit with an independent hash)", "2 C07"),
 "C08": ("exploration",
         "For every generated invocation the set of contents at ever-declared target paths and in the cache beforehand must be a subset of the set afterwards, and from the call log every rename ruler issues must have an absent or byte-identical destination and ruler must create no file outside its directory.",
         "Commands are atomic and deterministic; a failing command writes nothing. Crash instants are covered by C11.",
         "property-based testing: snapshot-subset invariant plus call-log step rule over generated histories", "2 C08"),
 "C09": ("exploration",
         "Workspaces with bystander files, two rules files and out-of-scope rules; every mutating call ruler makes outside commands must name an in-scope target (harness's own ancestor closure) or a path in the ruler directory, and all other files keep content, mtime and permissions, for build and clean with and without goals. A real-file-system slice through the built binary adds a target that is a symbolic link to a source file: every file that is not an in-scope target keeps content, modification time and mode across every invocation.",
         "Command writes are excluded by the in-command flag of the instrumented file system.",
         "property-based testing: call-log audit and before/after snapshot comparison over generated histories", "2 C09"),
 "C20": ("exploration",
         "With a recording Printer, every generated build's status lines are compared with what the call log shows happened to each target (command ran / renamed in from cache / untouched); failed, cancelled and out-of-scope rules must get no line and the number of reported failures must equal failing rules + missing leaves of the reference evaluation. A real-file-system slice runs the built binary on generated projects in which one /bin/sh command ends by exit 3, SIGKILL, SIGTERM or SIGHUP before or after writing its targets: no status line for it or its dependents, exactly one per independent target.",
         "Banner text compared after trimming; colours ignored. Scheduled scenarios are added by the C03-C06 engine.",
         "property-based testing: printed output vs call-log oracle over generated histories", "2 C20"),
 "C03": ("exploration",
         "Each generated scenario (graph x initial state x final build) is run from the same forked state under two serial schedules, every single-preemption schedule of the deterministic scheduler (sampled when over budget) and generated preemption-bounded / random-walk / PCT schedules; at every command start each declared source must hold its reference content and must not be modified afterwards. Real-file-system slice: when a producer's /bin/sh command is killed by a signal after writing its targets, no dependent may be produced. Conflict points (yields on a cache entry that two threads touch) are additionally preempted singly and in pairs, the second point taken from the yield log of the run with the first.",
         "Interleavings are explored at yield points only (channel ops, spawn/join/exit, every System call); commands are atomic. Exhaustive only for single preemptions of small scenarios.",
         "property-based testing over schedules: controlled deterministic scheduler, single-preemption enumeration + generated schedules, oracle at command entry", "2 C03"),
 "C04": ("exploration",
         "Generated placements of failing rules (non-zero exit, ungenerated target, flag-conditional, content-conditional) and missing leaves, under the C03 schedule set: the build must report exactly one matching error per failed rule / missing file, run no descendant, bring every independent rule up to date, and after the cause is repaired run the failed rules again and satisfy C01. The text shown to the user must have one line per error and name each missing file / ungenerated target. Rules with an empty command section and, on the real file system through the built binary, commands that exit non-zero or are killed by a signal are included.",
         "A failing command writes nothing; error order is not compared; CommandExecutedButErrored carries no name, so it is matched by count.",
         "property-based testing: fault placement x schedules against the reference evaluation, then repair-and-rebuild", "2 C04"),
 "C05": ("exploration",
         "Every run of every scheduled scenario (build and clean, with failures, cancellations and goal-restricted graphs) must come back: the scheduler shim knows every thread's blocked-on relation, so 'all unfinished threads blocked' is reported as a deadlock structurally; panics in any thread and SenderError/ReceiverError/Weird results are violations. Arbitrary generated rule sets (cycles, duplicate targets, missing goals) are also built and cleaned: whatever dependency analysis answers, the call must return. A real-file-system slice builds projects in which a /bin/sh command prints up to 700 000 bytes to stderr and stdout through the built binary; an invocation whose whole process tree sits idle (no CPU time, nothing runnable, 8 samples) is a hang.",
         "Deadlock is decided from the complete blocked-on relation of the shim, never by a timeout. Liveness beyond the explored schedules is not established.",
         "property-based testing over schedules: deterministic scheduler with structural deadlock detection, single-preemption enumeration + random/PCT", "2 C05"),
 "C06": ("exploration",
         "Scenarios biased toward shared cache entries (byte-identical outputs of unrelated rules, cleaned and reverted states) are run under many schedules from one forked state; verdict and the bytes/existence of every workspace file must equal the serial run, and the cache must stay content-addressed with nothing lost on every run. Schedules: two serial, every single preemption (budgeted), generated random/PCT/bounded schedules, and directed single and paired preemptions at cache-entry conflict points.",
         "Only the observables the property names are compared (not permissions, mtimes, which rule won a restore, or execution counts).",
         "property-based testing: differential across schedules of the same scenario (serial baseline vs enumerated/generated schedules)", "2 C06"),
 "C11": ("fault_enumeration",
         "For every generated scenario the final build/clean is first run uncrashed to learn its complete sequence of file-system mutations (inside ruler and inside commands); it is then re-run from the same forked state and killed before every single mutation, and inside every write after 1, n/2 and n-1 bytes (every byte for small writes in the thorough tier). At the frozen state the cache must be content-addressed and nothing lost; a fresh build must then succeed and equal the from-scratch result, and a second build must run nothing.",
         "Crash model: completed operations are durable and ordered, rename is atomic, no write-back reordering. Serial schedule (plus sampled random schedules in the thorough tier). Scenarios contain no failing rule.",
         "fault injection enumerated over every mutation prefix of generated scenarios (property-based scenario generation + exhaustive crash points), recovery oracle = C01", "2 C11"),
 "C18": ("exploration",
         "Each generated history is executed twice in lockstep from the same start, once as is and once with the saved file-state table deleted before every build, under a clock where every write is distinct and under a coarse clock where all files written in one invocation share an mtime; after every build verdicts and all workspace file bytes must agree (and equal the from-scratch result). A real-file-system slice does the same with two scratch directories for a rule whose declared source is a directory whose files are rewritten in place.",
         "Self-differential: the table-less run is ruler itself with less information. Time always advances between user actions and invocations.",
         "property-based testing: differential (with vs without the mtime table) over generated histories under two clock models", "2 C18"),
 "C10": ("exploration",
         "Generated workspaces are brought to a successful full build by a random history, cleaned (with and without goal) and rebuilt (with and without goal): after the clean no in-scope target exists and each one's bytes sit in the cache under the harness-computed name; after the build every cleaned in-scope target is back byte-identical with its exec bit, C01 holds, and no command ran when the cleaned contents were pairwise different. The same oracle is applied on the real file system through the built binary with shell commands.",
         "Distinct clock in memory; on the real file system user actions are spaced so that mtimes differ at ruler's microsecond resolution. One open known finding (exec bit among byte-identical targets) is excluded by signature and counted.",
         "property-based testing: generated clean/build scenarios against the reference model, in memory and end-to-end on the real file system", "2 C10"),
 "C17": ("exploration",
         "A generated rule gets an undeclared input feeding a chosen subset of its targets; after a successful build the input is changed and re-execution is forced (verified in the call log); the build must fail with exactly one Contradiction naming exactly the differing targets, leave the rule's history (read back through ruler's own reader) unchanged, name exactly those targets in the text shown to the user, run no descendant and leave unrelated rules alone (an unrelated rule whose command was edited must build in the same invocation and must not build again in the repeated one); with the input restored and re-execution forced again the build must succeed.",
         "Declared sources are byte-identical across the builds; all 2^k subsets of affected targets including the empty one are generated.",
         "property-based testing: metamorphic scenario (perturb an undeclared input, force re-execution) with exact-error oracle", "2 C17"),
 "C19": ("exploration",
         "On the real file system, ruler directories produced by generated build/clean/edit histories (built binary, /bin/sh commands) are served by a real `serve` child process; a minimal HTTP client requests every cached hash, absent hashes, every recorded (rule, sources) pair, unknown pairs and a generated batch of malformed and hostile names (traversal, encodings, over-long, near-miss hashes, names of planted canary files, some of them named like valid hashes) and compares status and body with the harness's own hashes; no canary byte may be served and the server must stay up. Cached files include empty, multi-block and non-UTF-8 contents. An identity entry with unique content tells the scenario's own server from a foreign process on a reused port.",
         "Only GET /files/<seg> and GET /rules/<seg>/<seg> are judged. Rule-endpoint request strings are formed with the crate's own ticket code (as a client would); expected bodies with the harness's own SHA-256/base-62.",
         "property-based testing / request fuzzing against a live server with an exact-response oracle", "2 C19"),
}

NOT_YET = {}

def main():
    props = [json.loads(l) for l in open(os.path.join(HERE, "properties.jsonl"))]
    checks = []
    na = []
    for p in props:
        pid = p["id"]
        if pid in CHECKS:
            cat, text, note, tech, ref = CHECKS[pid]
            checks.append({
                "property_id": pid,
                "quick_cmd": "./check %s --tier quick" % pid,
                "thorough_cmd": "./check %s --tier thorough" % pid,
                "evidence_file": "evidence/%s.json" % pid,
                "replay_cmd_template": "./check %s --replay {path}" % pid,
                "engine": "rv",
                "level_claimed": {"category": cat, "text": text, "design_ref": "DESIGN.md section " + ref},
                "level_note": note,
                "technique": tech,
            })
        else:
            na.append({"property_id": pid, "reason": NOT_YET.get(pid, "check not built yet in this session (work in progress; planned per DESIGN.md section 2)")})
    m = {
        "version": 1,
        "setup_cmd": "./check --setup",
        "hooks": {
            "guard": "ruler_verif",
            "enable": "RUSTFLAGS='--cfg ruler_verif' (set in /verif/harness/.cargo/config.toml); the harness crate include!s /repo/src/main.rs",
            "baseline_off_cmd": "cd /repo && cargo nextest run --workspace --no-fail-fast --offline || (cd /repo && cargo test --workspace --no-fail-fast --offline)",
            "source_commits": ["a3dff7b"],
            "fix_commits": ["3346842", "4f4789b", "a7fb2ad", "4bd0967", "139ab1b", "f7c720b"],
            "add_only": True,
        },
        "engines": [
            {"name": "libfuzzer", "path": "fuzz/", "serves_properties": ["C14", "C15", "C16"],
             "kind_free_text": "cargo-fuzz targets parse / decode62 / state (nightly, offline), oracles shared with the harness; thorough tiers only"},
            {"name": "rv", "path": "harness/", "serves_properties": [c["property_id"] for c in checks],
             "kind_free_text": "Rust binary that include!s /repo/src/main.rs; proptest strategies, deterministic scheduler shim, instrumented in-memory System, reference model"},
        ],
        "checks": checks,
        "not_applicable": na,
        "notes": "All checks are generated-input search against explicit oracles (property-based testing / fuzzing; libFuzzer for the three byte-level decoders in the thorough tiers). Six fix: commits in /repo (F1-F4, F4 follow-up, F6); one open known finding (C10 exec bit among byte-identical targets) in known_findings.json. Seeded changes and the detection matrix: seeded/.",
    }
    json.dump(m, open(os.path.join(HERE, "MANIFEST.json"), "w"), indent=1)
    print("checks:", [c["property_id"] for c in checks], "not_applicable:", len(na))

main()
