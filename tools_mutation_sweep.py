#!/usr/bin/env python3
"""Systematic sensitivity sweep: small syntactic mutants of /repo/src (non-test code), sampled with a fixed seed.

For every mutant, in a scratch worktree (never in /repo):
  1. cargo build            -> does not compile: "stillborn"
  2. cargo test             -> some of the 209 tests fail: "killed-by-tests" (not interesting here)
  3. the quick checks of /verif (own copy of the harness per lane, VERIF_REPO_DIR = the worktree), cheapest first,
     stopping at the first check that reports a VIOLATION (or exit 2 = harness could not build / watchdog)
Result lines go to <out>/results.jsonl; survivors (pass the tests AND every quick check) are what to look at.

usage: tools_mutation_sweep.py --out DIR --lanes N --count M [--seed S] [--files a.rs,b.rs] [--root /tmp/mut]
Everything under --root is removed at the end (worktrees via `git worktree remove --force`).
"""
import argparse, json, os, random, re, shutil, subprocess, sys, time
from multiprocessing import Process, Queue

REPO = '/repo'
VERIF = '/verif'
ORDER = ['C12', 'C13', 'C14', 'C15', 'C01', 'C02', 'C07', 'C08', 'C09', 'C20', 'C10', 'C17', 'C18', 'C19', 'C16', 'C04', 'C03', 'C05', 'C06', 'C11']
FILES = ['blob.rs', 'build.rs', 'bundle.rs', 'cache.rs', 'current.rs', 'directory.rs', 'history.rs', 'rule.rs', 'sort.rs',
         'ticket.rs', 'work.rs', 'server.rs', 'system/util.rs', 'system/mod.rs', 'system/real.rs']


ENUMS = {
    'FileResolution': ['AlreadyCorrect', 'Recovered', 'NeedsRebuild', 'Downloaded'],
    'RestoreResult': ['Done', 'NotThere'],
    'DownloadResult': ['Done', 'NotThere'],
    'SourceIndex': [],
    'WorkOption': [],
    'OpenError': ['NotThere'],
}


def non_test_lines(path):
    lines = open(path).read().split('\n')
    out = []
    for i, l in enumerate(lines):
        if l.strip().startswith('#[cfg(test)]'):
            # test-only items follow; a `mod test` ends the production part of the file
            nxt = ' '.join(lines[i + 1:i + 3])
            if 'mod ' in nxt:
                break
        out.append((i, l))
    return lines, out


def candidates():
    muts = []
    for f in FILES:
        p = os.path.join(REPO, 'src', f)
        if not os.path.exists(p):
            continue
        lines, prod = non_test_lines(p)
        in_block_comment = False
        skip_next_item = False
        prod_idx = set(i for i, _ in prod)
        for i, l in prod:
            st = l.strip()
            # a `match <call> { Ok(..) => {}, Err(..) => .. }` used as a statement: drop the whole step
            if st.startswith('match ') and i + 1 < len(lines) and lines[i + 1].strip() == '{' and not st.endswith('{'):
                prev = ''
                for b in range(i - 1, -1, -1):
                    if lines[b].strip():
                        prev = lines[b].strip(); break
                if prev.endswith('=') or prev.endswith('(') or prev.endswith(','):
                    continue_block = False
                else:
                    depth = 0; j = i + 1
                    while j < len(lines):
                        depth += lines[j].count('{') - lines[j].count('}')
                        if depth == 0: break
                        j += 1
                    body = lines[i:j + 1]
                    if j < len(lines) and lines[j].strip() == '}' and j in prod_idx and any(re.match(r'^\s*Ok\(\(?_?[a-z_]*\)?\) => \{\},?\s*$', x) for x in body) and len(body) <= 14:
                        muts.append({'file': f, 'line': i + 1, 'span': len(body), 'op': 'delete-step', 'old': '\n'.join(body),
                                     'new': re.match(r'^\s*', l).group(0) + '/* step deleted */'})
        for i, l in prod:
            s = l.strip()
            if '/*' in s and '*/' not in s:
                in_block_comment = True
                continue
            if in_block_comment:
                if '*/' in s:
                    in_block_comment = False
                continue
            if s.startswith('//') or s.startswith('/*') or s.startswith('#[') or s.startswith('use ') or not s:
                continue
            if 'write!(' in s or 'format!(' in s or 'println!' in s or 'panic!' in s:
                # message texts: not behaviour the properties speak of (status words are covered by their own operators)
                pass
            def add(op, new):
                if new != l:
                    muts.append({'file': f, 'line': i + 1, 'op': op, 'old': l, 'new': new})
            if ' == ' in l: add('eq->ne', l.replace(' == ', ' != ', 1))
            if ' != ' in l: add('ne->eq', l.replace(' != ', ' == ', 1))
            if ' < ' in l and '->' not in l and 'fn ' not in l and 'impl' not in l: add('lt->le', l.replace(' < ', ' <= ', 1))
            if ' > ' in l and '->' not in l and '=>' not in l and 'fn ' not in l and 'impl' not in l: add('gt->ge', l.replace(' > ', ' >= ', 1))
            if ' <= ' in l: add('le->lt', l.replace(' <= ', ' < ', 1))
            if ' >= ' in l: add('ge->gt', l.replace(' >= ', ' > ', 1))
            if ' && ' in l: add('and->or', l.replace(' && ', ' || ', 1))
            if ' || ' in l and '|_' not in l and '||{' not in l and '|| {' not in l: add('or->and', l.replace(' || ', ' && ', 1))
            if re.search(r'\+ 1\b', l): add('plus1->plus0', re.sub(r'\+ 1\b', '+ 0', l, 1))
            if re.search(r'- 1\b', l) and '->' not in l: add('minus1->minus0', re.sub(r'- 1\b', '- 0', l, 1))
            if re.search(r'\btrue\b', l) and 'fn ' not in l: add('true->false', re.sub(r'\btrue\b', 'false', l, 1))
            if re.search(r'\bfalse\b', l) and 'fn ' not in l: add('false->true', re.sub(r'\bfalse\b', 'true', l, 1))
            if re.search(r'\[0\]', l): add('idx0->idx1', l.replace('[0]', '[1]', 1))
            # statement deletion: a whole-line method call or assignment through a method (sort, push, insert, remove, ...)
            if re.match(r'^\s*[A-Za-z_][A-Za-z0-9_\.\[\]\(\)&\* ]*\.(sort|sort_by|dedup|push|insert|remove|clear|extend|reverse|truncate|input_ticket|input_str|push_str)\(.*\);\s*$', l):
                add('delete-stmt', re.match(r'^\s*', l).group(0) + '/* deleted */')
            if re.match(r'^\s*return Err\(', l) and l.rstrip().endswith(';'):
                pass
            m_if = re.match(r'^(\s*)(if|else if|while) (?!let )(.+)$', l)
            if m_if and not l.rstrip().endswith('{') and not l.rstrip().endswith(';') and '//' not in l:
                add('negate-cond', f"{m_if.group(1)}{m_if.group(2)} !({m_if.group(3)})")
            for idx in ('i', 'index', 'sub_index', 'k', 'j'):
                if f'[{idx}]' in l and 'for ' not in l: add('idx->0', l.replace(f'[{idx}]', '[0]', 1))
            m_rn = re.search(r'\.rename\(([^,()]+), ([^,()]+)\)', l)
            if m_rn: add('swap-rename-args', l.replace(m_rn.group(0), f'.rename({m_rn.group(2)}, {m_rn.group(1)})', 1))
            # an enum value in expression position replaced by a sibling variant (unit variants only)
            if '=>' not in l or l.index('=>') < (l.find('::') if '::' in l else 0):
                for enum, variants in ENUMS.items():
                    for v in variants:
                        tok = f'{enum}::{v}'
                        if re.search(re.escape(tok) + r'(?![A-Za-z(])', l):
                            for v2 in variants:
                                if v2 != v:
                                    add(f'variant:{v}->{v2}', re.sub(re.escape(tok) + r'(?![A-Za-z(])', f'{enum}::{v2}', l, 1))
                                    break
            if 'continue;' == s: add('continue->noop', l.replace('continue;', '{}'))
            if 'break;' == s: add('break->noop', l.replace('break;', '{}'))
    return muts


def sh(cmd, cwd=None, env=None, timeout=None):
    try:
        p = subprocess.run(cmd, shell=True, cwd=cwd, env=env, stdout=subprocess.PIPE, stderr=subprocess.STDOUT, timeout=timeout)
        return p.returncode, p.stdout.decode('utf-8', 'replace')
    except subprocess.TimeoutExpired as e:
        return 124, (e.stdout or b'').decode('utf-8', 'replace') + '\n[timeout]'


def lane(k, q, out, root):
    lroot = os.path.join(root, f'lane{k}')
    repo = os.path.join(lroot, 'repo')
    verif = os.path.join(lroot, 'verif')
    os.makedirs(lroot, exist_ok=True)
    sh(f'git -C {REPO} worktree add --detach {repo} HEAD')
    os.makedirs(verif, exist_ok=True)
    sh(f'rsync -a --exclude target --exclude replays --exclude evidence --exclude seeded --exclude fuzz --exclude .git {VERIF}/ {verif}/')
    os.makedirs(os.path.join(verif, 'evidence'), exist_ok=True)
    os.makedirs(os.path.join(verif, 'replays'), exist_ok=True)
    env = dict(os.environ, VERIF_REPO_DIR=repo, VERIF_DIR=verif, CARGO_NET_OFFLINE='true')
    # warm up: builds of the unmutated tree
    sh('cargo build --offline', cwd=repo, env=env)
    sh('cargo test --offline --no-run', cwd=repo, env=env)
    rc, o = sh(f'{verif}/check C13', env=env)
    resf = open(os.path.join(out, f'results.lane{k}.jsonl'), 'a')
    while True:
        m = q.get()
        if m is None:
            break
        t0 = time.time()
        path = os.path.join(repo, 'src', m['file'])
        src = open(path).read().split('\n')
        span = m.get('span', 1)
        if '\n'.join(src[m['line'] - 1:m['line'] - 1 + span]) != m['old']:
            m['verdict'] = 'stale'
        else:
            src[m['line'] - 1:m['line'] - 1 + span] = [m['new']]
            open(path, 'w').write('\n'.join(src))
            rc, o = sh('cargo build --offline 2>&1 | tail -3', cwd=repo, env=env, timeout=600)
            if 'error' in o and 'Finished' not in o:
                m['verdict'] = 'stillborn'
            else:
                rc, o = sh('cargo test --offline 2>&1 | grep -E "test result|FAILED|panicked" | tail -3', cwd=repo, env=env, timeout=900)
                if 'test result: ok. 209 passed' not in o:
                    m['verdict'] = 'killed-by-tests'
                else:
                    m['verdict'] = 'SURVIVED'
                    m['checks_run'] = []
                    for cid in ORDER:
                        rc, o = sh(f'{verif}/check {cid}', env=env, timeout=1700)
                        m['checks_run'].append(cid)
                        if rc == 1 and 'VIOLATION' in o:
                            reason = [l for l in o.split('\n') if 'reason:' in l]
                            m['verdict'] = 'killed-by-check'
                            m['killed_by'] = cid
                            m['reason'] = (reason[0].strip() if reason else '')[:400]
                            break
                        if rc == 2 or rc == 124:
                            m['verdict'] = 'check-exit-2'
                            m['killed_by'] = cid
                            m['reason'] = o[-400:]
                            break
            sh('git checkout -- src', cwd=repo)
        m['seconds'] = round(time.time() - t0, 1)
        resf.write(json.dumps(m) + '\n')
        resf.flush()
        print(f"lane{k} {m['file']}:{m['line']} {m['op']} -> {m['verdict']} {m.get('killed_by', '')} ({m['seconds']}s)", flush=True)
    sh(f'git -C {REPO} worktree remove --force {repo}')
    shutil.rmtree(lroot, ignore_errors=True)


def main():
    ap = argparse.ArgumentParser()
    ap.add_argument('--out', required=True)
    ap.add_argument('--lanes', type=int, default=3)
    ap.add_argument('--count', type=int, default=120)
    ap.add_argument('--seed', type=int, default=20260926)
    ap.add_argument('--files', default='')
    ap.add_argument('--root', default='/tmp/mut')
    ap.add_argument('--list', action='store_true')
    a = ap.parse_args()
    muts = candidates()
    if a.files:
        keep = set(a.files.split(','))
        muts = [m for m in muts if m['file'] in keep]
    rnd = random.Random(a.seed)
    rnd.shuffle(muts)
    print(f'{len(muts)} candidate mutants; taking {min(a.count, len(muts))}', flush=True)
    if a.list:
        for m in muts[:a.count]:
            print(m['file'], m['line'], m['op'], (m['old'].strip().split('\n')[0] if m['op'] == 'delete-step' else m['new'].strip())[:100])
        return
    os.makedirs(a.out, exist_ok=True)
    done = set()
    for fn in os.listdir(a.out):
        if fn.startswith('results.lane'):
            for l in open(os.path.join(a.out, fn)):
                d = json.loads(l)
                done.add((d['file'], d['line'], d['op']))
    q = Queue()
    n = 0
    for m in muts[:a.count]:
        if (m['file'], m['line'], m['op']) in done:
            continue
        q.put(m)
        n += 1
    for _ in range(a.lanes):
        q.put(None)
    print(f'{n} to run ({len(done)} already done)', flush=True)
    ps = [Process(target=lane, args=(k, q, a.out, a.root)) for k in range(a.lanes)]
    for p in ps:
        p.start()
    for p in ps:
        p.join()
    shutil.rmtree(a.root, ignore_errors=True)
    sh(f'git -C {REPO} worktree prune')


if __name__ == '__main__':
    main()
