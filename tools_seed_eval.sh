#!/bin/bash
# usage: tools_seed_eval.sh <ID-dir-name> [check ids...]
# 1. confirms the seed in its scratch worktree /tmp/wt/<name>: compiles, 209 tests pass, demo fails with / passes without
# 2. applies it to /repo, runs the given quick checks (default: all), reverts
# 3. writes /verif/seeded/<name>/{patch.diff,demo/,meta.json,detection.txt}
NAME="$1"; shift
WT=${WTROOT:-/tmp/wt}/${NAME%-r[0-9]}
OUT=/verif/seeded/$NAME
[ -f "$WT/SEED/patch.diff" ] || { echo "no patch in $WT/SEED"; exit 2; }
mkdir -p "$OUT"
cd "$WT" || exit 2
git checkout -q -- src 2>/dev/null
LOG="$OUT/confirm.log"; : > "$LOG"
echo "## confirm in scratch worktree $WT" | tee -a "$LOG"
git apply --check SEED/patch.diff || { echo "patch does not apply" | tee -a "$LOG"; exit 1; }
git apply SEED/patch.diff
( cargo build --offline 2>&1 | tail -1 ) | tee -a "$LOG"
TESTS=$(cargo test --offline 2>&1 | grep "test result" | tail -1); echo "tests with patch: $TESTS" | tee -a "$LOG"
DEMO_WITH="n/a"; DEMO_WITHOUT="n/a"; DEMO=""
for cand in demo.sh run.sh run_demo.sh; do [ -f SEED/demo/$cand ] && { DEMO="sh SEED/demo/$cand"; break; }; done
[ -z "$DEMO" ] && [ -f SEED/demo/demo.py ] && DEMO="python3 SEED/demo/demo.py"
if [ -n "$DEMO" ]; then
   ( timeout 600 $DEMO > "$OUT/demo_with.out" 2>&1 ); DEMO_WITH=$?
fi
git checkout -q -- src
if [ -n "$DEMO" ]; then
   cargo build --offline 2>&1 | tail -1 >> "$LOG"
   ( timeout 600 $DEMO > "$OUT/demo_without.out" 2>&1 ); DEMO_WITHOUT=$?
   git checkout -q -- src
fi
echo "demo ($DEMO) exit with patch: $DEMO_WITH ; without patch: $DEMO_WITHOUT" | tee -a "$LOG"
cp SEED/patch.diff "$OUT/patch.diff"; rm -rf "$OUT/demo"; cp -r SEED/demo "$OUT/demo" 2>/dev/null; cp SEED/meta.json "$OUT/meta.agent.json" 2>/dev/null
echo "## detection by /verif checks (patch applied to /repo, reverted afterwards)" | tee -a "$LOG"
cd /repo || exit 2
git diff --quiet || { echo "/repo dirty; abort"; exit 2; }
git apply "$OUT/patch.diff" || { echo "patch does not apply to /repo" | tee -a "$LOG"; exit 1; }
trap 'git -C /repo checkout -- .' EXIT
IDS="$@"; [ -z "$IDS" ] && IDS="C01 C02 C03 C04 C05 C06 C07 C08 C09 C10 C11 C12 C13 C14 C15 C16 C17 C18 C19 C20"
: > "$OUT/detection.txt"
for id in $IDS; do
   o=$(VERIF_DIR=/tmp/verif_mut_out /verif/check_noenv $id 2>&1); rc=$?
   n=$(echo "$o" | grep -c "^VIOLATION")
   r=$(echo "$o" | grep -m1 "reason:" | cut -c1-260)
   echo "$id rc=$rc violations=$n $r" | tee -a "$OUT/detection.txt"
done
