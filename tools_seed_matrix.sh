#!/bin/bash
# re-runs detection of every seeded change against every quick check; writes seeded/<name>/detection.txt and seeded/MATRIX.txt
cd /verif/seeded
: > MATRIX.txt
for d in */; do
  n=${d%/}
  [ -f "$n/patch.diff" ] || continue
  cd /repo; git diff --quiet || { echo "/repo dirty"; exit 2; }
  git apply "/verif/seeded/$n/patch.diff" || { echo "$n: patch does not apply" >> /verif/seeded/MATRIX.txt; continue; }
  : > "/verif/seeded/$n/detection.txt"
  caught=""
  for id in C01 C02 C03 C04 C05 C06 C07 C08 C09 C10 C11 C12 C13 C14 C15 C16 C17 C18 C19 C20; do
     o=$(VERIF_DIR=/tmp/verif_mut_out /verif/check_noenv $id 2>&1); rc=$?
     v=$(echo "$o" | grep -c "^VIOLATION")
     r=$(echo "$o" | grep -m1 "reason:" | cut -c1-240)
     echo "$id rc=$rc violations=$v $r" >> "/verif/seeded/$n/detection.txt"
     [ $rc -eq 1 ] && caught="$caught $id"
     [ $rc -eq 2 ] && caught="$caught $id(exit2)"
  done
  git -C /repo checkout -- .
  echo "$n caught_by:$caught" | tee -a /verif/seeded/MATRIX.txt
  cd /verif/seeded
done
