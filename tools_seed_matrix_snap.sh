#!/bin/bash
# Detection matrix on a private copy: run from a snapshot of /verif (vp run --with-repo) with VERIF_REPO_DIR=$VP_RUN_REPO.
# Applies every seeded patch to $VERIF_REPO_DIR (never to /repo), runs every quick check of THIS snapshot, reverts.
# Results: $MATRIX_OUT/<name>/detection.txt and $MATRIX_OUT/MATRIX.txt (default /verif/seeded).
HERE="$(cd "$(dirname "$0")" && pwd)"
REPO="${VERIF_REPO_DIR:?set VERIF_REPO_DIR to a private copy of the repository}"
[ "$REPO" = "/repo" ] && { echo "refusing to patch /repo"; exit 2; }
export VERIF_REPO_DIR="$REPO"
OUT="${MATRIX_OUT:-/verif/seeded}"
# ONLY='*-r6' restricts the run to matching seed directories
# optional split over several snapshots running side by side: LANE=k LANES=n takes every n-th seed
LANE="${LANE:-0}"; LANES="${LANES:-1}"
MXOUT=/tmp/verif_mx_out_$LANE
MATRIX="$OUT/MATRIX.part$LANE.txt"; [ "$LANES" = "1" ] && MATRIX="$OUT/MATRIX.txt"
mkdir -p $MXOUT; cp "$HERE/known_findings.json" $MXOUT/
sed 's|^export VERIF_DIR="\$DIR"|export VERIF_DIR="${VERIF_DIR:-$DIR}"|' "$HERE/check" > "$HERE/check_noenv"; chmod +x "$HERE/check_noenv"
idx=0
: > "$MATRIX"
for d in "$HERE"/seeded/*/; do
  n=$(basename "$d")
  case "$n" in ${ONLY:-*}) ;; *) continue ;; esac
  idx=$((idx+1)); [ $((idx % LANES)) -eq "$LANE" ] || continue
  [ -f "$d/patch.diff" ] || continue
  ( cd "$REPO" && git checkout -q -- . 2>/dev/null; git apply "$d/patch.diff" ) || { echo "$n: patch does not apply" >> "$MATRIX"; continue; }
  mkdir -p "$OUT/$n"
  : > "$OUT/$n/detection.txt"
  caught=""
  for id in C01 C02 C03 C04 C05 C06 C07 C08 C09 C10 C11 C12 C13 C14 C15 C16 C17 C18 C19 C20; do
     o=$(VERIF_DIR=$MXOUT "$HERE/check_noenv" $id 2>&1); rc=$?
     v=$(echo "$o" | grep -c "^VIOLATION")
     r=$(echo "$o" | grep -m1 "reason:" | cut -c1-240)
     echo "$id rc=$rc violations=$v $r" >> "$OUT/$n/detection.txt"
     [ $rc -eq 1 ] && caught="$caught $id"
     [ $rc -eq 2 ] && caught="$caught $id(exit2)"
  done
  ( cd "$REPO" && git checkout -q -- . )
  echo "$n caught_by:$caught" | tee -a "$MATRIX"
done
rm -rf $MXOUT
