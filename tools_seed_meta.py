#!/usr/bin/env python3
"""(Re)writes seeded/<name>/meta.json from what the sub-agent delivered (meta.agent.json), the confirmation log and the
detection file.  Usage: tools_seed_meta.py <name> <round> [--force]"""
import json, os, re, sys
name, rnd = sys.argv[1], int(sys.argv[2])
d = f'/verif/seeded/{name}'
out = f'{d}/meta.json'
if os.path.exists(out) and '--force' not in sys.argv:
    print('exists', out); sys.exit(0)
agent = {}
try:
    agent = json.load(open(f'{d}/meta.agent.json'))
except Exception as e:
    print('no agent meta', e)
log = open(f'{d}/confirm.log').read().splitlines() if os.path.exists(f'{d}/confirm.log') else []
det = open(f'{d}/detection.txt').read().splitlines() if os.path.exists(f'{d}/detection.txt') else []
caught = [l.split()[0] for l in det if re.search(r'rc=1 violations=[1-9]', l)]
meta = {
    'property': name.split('-')[0],
    'round': rnd,
    'breaks': agent.get('summary', '') or agent.get('breaks', ''),
    'needs_to_manifest': agent.get('needs_to_manifest', ''),
    'files_touched': agent.get('files_touched', []),
    'confirmed_by_me': {
        'where': 'scratch worktree (removed afterwards)',
        'what_i_ran': 'git apply SEED/patch.diff; cargo build --offline; cargo test --offline (209 passed); the demonstration with and without the patch (see log); then the patch applied to /repo, the quick checks, reverted',
        'log': log,
    },
    'caught_by': caught,
    'detection_file': 'detection.txt',
}
json.dump(meta, open(out, 'w'), indent=1)
print('wrote', out, 'caught_by', caught)
