#!/bin/bash
# Own-property detection of every seeded change under several VERIF_SEED values, on a private copy
# (vp run --with-repo, VERIF_REPO_DIR=$VP_RUN_REPO).  Output: $OUT/OWN.part$LANE.txt, one line per seed directory.
HERE="$(cd "$(dirname "$0")" && pwd)"
REPO="${VERIF_REPO_DIR:?set VERIF_REPO_DIR to a private copy of the repository}"
[ "$REPO" = "/repo" ] && { echo "refusing to patch /repo"; exit 2; }
export VERIF_REPO_DIR="$REPO"
OUT="${MATRIX_OUT:-/verif/seeded}"
LANE="${LANE:-0}"; LANES="${LANES:-1}"
SEEDS="${SEEDS:-20260926 7 1234}"
MXOUT=/tmp/verif_own_out_$LANE
mkdir -p $MXOUT; cp "$HERE/known_findings.json" $MXOUT/
sed 's|^export VERIF_DIR="\$DIR"|export VERIF_DIR="${VERIF_DIR:-$DIR}"|' "$HERE/check" > "$HERE/check_noenv"; chmod +x "$HERE/check_noenv"
idx=0
: > "$OUT/OWN.part$LANE.txt"
for d in "$HERE"/seeded/*/; do
  n=$(basename "$d")
  [ -f "$d/patch.diff" ] || continue
  idx=$((idx+1)); [ $((idx % LANES)) -eq "$LANE" ] || continue
  id=${n%%-*}
  ( cd "$REPO" && git checkout -q -- . 2>/dev/null; git apply "$d/patch.diff" ) || { echo "$n: patch does not apply" >> "$OUT/OWN.part$LANE.txt"; continue; }
  line="$n $id"
  for s in $SEEDS; do
     o=$(VERIF_SEED=$s VERIF_DIR=$MXOUT "$HERE/check_noenv" $id 2>&1); rc=$?
     v=$(echo "$o" | grep -c "^VIOLATION")
     line="$line seed=$s:rc=$rc,violations=$v"
  done
  ( cd "$REPO" && git checkout -q -- . )
  echo "$line" | tee -a "$OUT/OWN.part$LANE.txt"
done
rm -rf $MXOUT
