#!/bin/bash
# usage: tools_try_patch.sh <patch.diff> <ID> [<ID>...]   (applies to /repo, runs quick checks, reverts)
P="$1"; shift
cd /repo || exit 2
if ! git diff --quiet; then echo "/repo has uncommitted changes; refusing" >&2; exit 2; fi
git apply "$P" || { echo "patch does not apply" >&2; exit 2; }
trap 'git -C /repo checkout -- . ' EXIT
for id in "$@"; do
    echo "== $id"
    VERIF_DIR=/tmp/verif_mut_out /verif/check_noenv "$id" 2>&1 | grep -E "VIOLATION|reason|violations=|error|exit 2" | head -6
done
